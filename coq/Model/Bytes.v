(* Bytes are lists of Z (each 0..255 by construction); big-endian fixed-width integers as written
   by Python's struct module with the '!' (network order) prefix. *)
From Scales Require Import Model.Base.
Local Open Scope Z_scope.

Definition bytes := list Z.

(* k-byte big-endian representation of n (taken modulo 256^k) *)
Fixpoint be (k : nat) (n : Z) : bytes :=
  match k with O => [] | S k' => be k' (n / 256) ++ [n mod 256] end.

Definition unbe (l : bytes) : Z := fold_left (fun a b => a * 256 + b) l 0.

Definition pow256 (k : nat) : Z := 256 ^ Z.of_nat k.

(* struct.pack of an unsigned / signed k-byte field: struct.error (None) when out of range *)
Definition pack_u (k : nat) (n : Z) : option bytes :=
  if (0 <=? n) && (n <? pow256 k) then Some (be k n) else None.
Definition pack_s (k : nat) (n : Z) : option bytes :=
  if (- (pow256 k / 2) <=? n) && (n <? pow256 k / 2) then Some (be k n) else None.

(* struct.unpack of exactly k bytes *)
Definition unpack_u (l : bytes) : Z := unbe l.
Definition unpack_s (k : nat) (l : bytes) : Z :=
  let u := unbe l in if u <? pow256 k / 2 then u else u - pow256 k.

Definition is_byte (b : Z) : bool := (0 <=? b) && (b <? 256).
Definition all_bytes (l : bytes) : bool := forallb is_byte l.

Definition take (n : Z) (l : bytes) : bytes := firstn (Z.to_nat n) l.
Definition drop (n : Z) (l : bytes) : bytes := skipn (Z.to_nat n) l.
Definition len (l : bytes) : Z := Z.of_nat (length l).

(* read exactly n bytes from the front (stream.read(n) followed by struct.unpack needing n) *)
Definition read_n (n : Z) (l : bytes) : option (bytes * bytes) :=
  if (0 <=? n) && (n <=? len l) then Some (take n l, drop n l) else None.

(* option monad *)
Definition obind {A B} (o : option A) (f : A -> option B) : option B :=
  match o with Some x => f x | None => None end.
Notation "'olet' x ':=' o 'in' b" := (obind o (fun x => b)) (at level 200, x pattern, right associativity).
