(* scales/loadbalancer/aperture.py  ApertureBalancerSink, as it is now, transcribed branch for branch.

   The heap base class (heap.py) is abstracted to its interface with the aperture:
     * `self._heap[1:]`  = [active] : the list of active members (endpoint + state of the member's channel),
       kept in the order in which heap._AddSink was called (the heap's own order is NOT modelled here);
     * heap._AddSink(ep, factory) appends a member whose fresh channel is Idle,
       heap._RemoveSink(ep) removes the member with that endpoint and returns whether there was one;
     * the hooks _OnNodeDown / _OnGet / _OnPut are labels ([LNodeDown], [LAdjust 1], [LAdjust (-1)]).
   `self._servers` (base.py) = [members].  `_idle_endpoints`, `_pending_endpoints` are Python sets = duplicate-free lists.

   Everything the code does not determine by itself is carried by the label and only checked for
   admissibility, so the theorems hold for every outcome:
     * the endpoint `random.choice(list(self._idle_endpoints))` returned                      -> [ch]
     * the endpoint `_ContractAperture` picked: "first closed non-pending node in heap order, else first
       non-pending node in heap order" depends on the heap's internal order, so the label names the victim and
       the model accepts exactly the victims some heap order could produce (any closed non-pending member if
       one exists, else any non-pending member)                                               -> [victim]
     * the value returned by the real Ema (a float, converted exactly to Q) and the weight exp(-dt/5) it used -> [avg], [w]
     * channel states are set by the environment ([LChan]); the state the hook saw is in [LNodeDown]
     * completion of the asynchronous open chain that discards a pending endpoint             -> [LOpenDone]
     * `ar.exception` seen by _Jitter after waiting                                            -> [exn]
     * collaborators may complete synchronously: a channel whose Close() fails its in-flight requests inline makes
       the heap call _OnPut (and the caller may dispatch again) in the middle of _RemoveSink / _ContractAperture;
       therefore a departure is two labels ([LLeave], [LReplace]) and _Jitter's final discard is a separate [LOpenDone]
   Outcomes: [Ok s] | [Inadm] (the label could not have been produced by the code in this state; the
   correspondence check fails on it) | [Crash] (a Python exception escapes: KeyError in `self._servers[new_endpoint]`). *)
From Coq Require Import ZArith QArith List Bool Lia.
From Scales Require Import Model.Base Model.Ema.
Import ListNotations.
Local Open Scope Z_scope.

Record config := { min_size : Z; max_size : Z; min_load : Q; max_load : Q }.

(* ChannelState: Idle = 1, Open = 2, Busy = 3, Closed = 4 *)
Record member := { m_ep : Z; m_st : Z }.
Definition is_open (m : member) : bool := m_st m <=? 3.      (* sink.is_open:  state <= ChannelState.Busy *)
Definition is_closed (m : member) : bool := m_st m =? 4.     (* sink.is_closed: state == ChannelState.Closed *)

Record state := {
  members : list Z;         (* keys of self._servers *)
  active  : list member;    (* self._heap[1:] *)
  idle    : list Z;         (* self._idle_endpoints *)
  pending : list Z;         (* self._pending_endpoints *)
  total   : Z;              (* self._total *)
  ema     : option Q;       (* self._ema.value; None while self._ema._time == -1 *)
  leaving : option Z        (* control point: Some ep while ApertureBalancerSink._RemoveSink(ep) is between
                               `removed = super()._RemoveSink(ep)` (which returned True) and `self._TryExpandAperture()` *)
}.

Definition init : state :=
  {| members := []; active := []; idle := []; pending := []; total := 0; ema := None; leaving := None |}.

Definition memz (e : Z) (l : list Z) : bool := existsb (Z.eqb e) l.
Definition sadd (e : Z) (l : list Z) : list Z := if memz e l then l else l ++ [e].       (* set.add *)
Definition sdiscard (e : Z) (l : list Z) : list Z := filter (fun x => negb (x =? e)) l.  (* set.discard / dict.pop *)
Definition eps_of (a : list member) : list Z := map m_ep a.
Definition size (s : state) : Z := Z.of_nat (length (active s)).                          (* self._size *)
Definition healthy (s : state) : Z := Z.of_nat (length (filter is_open (active s))).      (* num_healthy *)
Definition is_nil {A} (l : list A) : bool := match l with [] => true | _ => false end.
Definition is_none {A} (o : option A) : bool := match o with None => true | _ => false end.

Fixpoint remove_first (e : Z) (a : list member) : list member :=
  match a with
  | [] => []
  | m :: r => if m_ep m =? e then r else m :: remove_first e r
  end.

Definition fresh (e : Z) : member := {| m_ep := e; m_st := 1 |}.

Inductive result := Ok (s : state) | Inadm | Crash.

Definition set_active (s : state) a := {| members := members s; active := a; idle := idle s; pending := pending s; total := total s; ema := ema s; leaving := leaving s |}.
Definition set_idle (s : state) i := {| members := members s; active := active s; idle := i; pending := pending s; total := total s; ema := ema s; leaving := leaving s |}.
Definition set_pending (s : state) p := {| members := members s; active := active s; idle := idle s; pending := p; total := total s; ema := ema s; leaving := leaving s |}.
Definition set_leaving (s : state) l := {| members := members s; active := active s; idle := idle s; pending := pending s; total := total s; ema := ema s; leaving := l |}.
Definition set_members (s : state) m := {| members := m; active := active s; idle := idle s; pending := pending s; total := total s; ema := ema s; leaving := leaving s |}.

(* _TryExpandAperture (leave_pending only decides who discards the pending mark later: a callback -> LOpenDone,
   or _Jitter's finally -> LJitterDone) *)
Definition try_expand (s : state) (ch : option Z) : result :=
  match idle s, ch with
  | [], None => Ok s
  | [], Some _ => Inadm
  | _ :: _, None => Inadm
  | _ :: _, Some e =>
      if negb (memz e (idle s)) then Inadm                  (* random.choice returns an element of the list *)
      else if negb (memz e (members s)) then Crash          (* new_sink = self._servers[new_endpoint] *)
      else Ok {| members := members s;
                 active := active s ++ [fresh e];           (* heap._AddSink *)
                 idle := sdiscard e (idle s);
                 pending := sadd e (pending s);
                 total := total s; ema := ema s; leaving := leaving s |}
  end.

Definition cands (s : state) : list member := filter (fun m => negb (memz (m_ep m) (pending s))) (active s).

(* which endpoints the two scans of _ContractAperture can return for SOME heap order *)
Definition victim_ok (s : state) (v : Z) : bool :=
  if existsb is_closed (cands s)
  then existsb (fun m => (m_ep m =? v) && is_closed m) (cands s)
  else existsb (fun m => m_ep m =? v) (cands s).

(* _ContractAperture(force) *)
Definition contract (c : config) (s : state) (force : bool) (victim : option Z) : result :=
  if negb (is_nil (pending s)) && negb force then
    match victim with None => Ok s | Some _ => Inadm end
  else if min_size c <? healthy s then
    match cands s, victim with
    | [], None => Ok s
    | [], Some _ => Inadm
    | _ :: _, None => Inadm
    | _ :: _, Some v =>
        if victim_ok s v
        then Ok {| members := members s;
                   active := remove_first v (active s);     (* heap._RemoveSink *)
                   idle := sadd v (idle s);
                   pending := pending s; total := total s; ema := ema s; leaving := leaving s |}
        else Inadm
    end
  else
    match victim with None => Ok s | Some _ => Inadm end.

Inductive label :=
| LJoin (ep : Z)                                   (* __OnServerSetJoin / initial __AddServer *)
| LLeave (ep : Z)                                  (* __OnServerSetLeave up to and including `removed = super()._RemoveSink(ep)` (+ the rest when removed is False) *)
| LReplace (ep : Z) (ch : option Z)                (* rest of _RemoveSink(ep) when removed: _TryExpandAperture(); idle.discard(ep) *)
| LChan (ep st : Z)                                (* environment: the channel of active member ep is now in state st *)
| LNodeDown (ep st : Z) (ch : option Z)            (* hook _OnNodeDown(node); st = node.channel.state as read by the hook *)
| LAdjust (amount sample : Z) (w avg : Q) (ch victim : option Z)   (* hooks _OnGet (+1) / _OnPut (-1) *)
| LOpenDone (ep : Z)                               (* lambda ar: self._pending_endpoints.discard(ep) *)
| LJitterStart (ch : option Z)                     (* _Jitter up to ar.wait() *)
| LJitterDone (exn : bool) (victim : option Z).    (* _Jitter after ar.wait(): `if not ar.exception: self._ContractAperture(True)`;
                                                      its `finally: pending.discard(endpoint)` is an LOpenDone label *)

Definition load_ge_max (c : config) (s : state) (avg : Q) : bool :=
  if size s =? 0 then Qle_bool (max_load c) (max_load c)      (* aperture_load = self._max_load *)
  else Qle_bool (max_load c) (avg / inject_Z (size s)).
Definition load_le_min (c : config) (s : state) (avg : Q) : bool :=
  if size s =? 0 then Qle_bool (max_load c) (min_load c)
  else Qle_bool (avg / inject_Z (size s)) (min_load c).

Definition up_cond (c : config) (s : state) (avg : Q) : bool :=
  load_ge_max c s avg && negb (is_nil (idle s)) && (size s <? max_size c).
Definition down_cond (c : config) (s : state) (avg : Q) : bool :=
  load_le_min c s avg && (min_size c <? size s).

(* the value the real Ema returned is accepted when it is the exact update within 10^-9 and the weight is in [0,1] *)
Definition ema_ok (s : state) (sample : Z) (w avg : Q) : bool :=
  match ema s with
  | None => Qeq_bool avg (inject_Z sample)
  | Some _ => weight_ok w && close (ema_step (ema s) (inject_Z sample) w) avg
  end.

Definition step (c : config) (s : state) (l : label) : result :=
  match l with
  | LJoin ep =>
      if negb (is_none (leaving s)) then Inadm                      (* server-set notifications are delivered serially *)
      else if memz ep (members s) then Ok s
      else
        let s1 := set_members s (members s ++ [ep]) in
        if healthy s <? min_size c
        then Ok (set_active s1 (active s ++ [fresh ep]))
        else Ok (set_idle s1 (sadd ep (idle s)))
  | LLeave ep =>
      match leaving s with
      | Some _ => Inadm                                             (* server-set notifications are delivered serially *)
      | None =>
        let s1 := set_members s (sdiscard ep (members s)) in        (* self._servers.pop(ep, None) *)
        if memz ep (eps_of (active s))                              (* removed = heap._RemoveSink(ep) *)
        then Ok (set_leaving (set_active s1 (remove_first ep (active s))) (Some ep))
        else Ok (set_idle s1 (sdiscard ep (idle s1)))
      end
  | LReplace ep ch =>
      (* between LLeave and LReplace the removed node's channel is closed; a channel that fails its in-flight requests
         inline makes the heap call _OnPut (and the caller may dispatch again) right here, hence the separate label *)
      match leaving s with
      | Some e =>
          if negb (e =? ep) then Inadm
          else match try_expand (set_leaving s None) ch with
               | Ok s2 => Ok (set_idle s2 (sdiscard ep (idle s2)))
               | x => x
               end
      | None => Inadm
      end
  | LChan ep st =>
      Ok (set_active s (map (fun m => if m_ep m =? ep then {| m_ep := ep; m_st := st |} else m) (active s)))
  | LNodeDown ep st ch =>
      (* `node` may be an active member or a node already detached from the heap (its endpoint may even be
         active again with a new channel), so the state the hook read is part of the label *)
      if st =? 1 then match ch with None => Ok s | Some _ => Inadm end else try_expand s ch
  | LAdjust amount sample w avg ch victim =>
      let t := total s + amount in
      if negb (t =? sample) then Inadm
      else if negb (ema_ok s sample w avg) then Inadm
      else
        let s1 := {| members := members s; active := active s; idle := idle s; pending := pending s;
                     total := t; ema := Some avg; leaving := leaving s |} in
        if up_cond c s avg then
          match victim with None => try_expand s1 ch | Some _ => Inadm end
        else if down_cond c s avg then
          match ch with None => contract c s1 false victim | Some _ => Inadm end
        else
          match ch, victim with None, None => Ok s1 | _, _ => Inadm end
  | LOpenDone ep => Ok (set_pending s (sdiscard ep (pending s)))
  | LJitterStart ch => try_expand s ch
  | LJitterDone exn victim =>
      if exn then match victim with None => Ok s | Some _ => Inadm end
      else contract c s true victim
  end.

Fixpoint run (c : config) (s : state) (ls : list label) : result :=
  match ls with
  | [] => Ok s
  | l :: r => match step c s l with Ok s' => run c s' r | x => x end
  end.

(* ---------------------------------------------------------------------------------------------
   correspondence: a case is the configuration and, per harness operation, the labels the real
   sink produced and what was observed afterwards
   --------------------------------------------------------------------------------------------- *)
(* o_total = requests the harness has handed to the sink and not yet completed (its own count, independent of the hooks):
   it must equal the model's [total], i.e. every completion - also of a request whose member has meanwhile left
   or was contracted - reaches _OnPut *)
Record obs := { o_active : list (Z * Z); o_idle : list Z; o_pending : list Z; o_total : Z }.
Record case := { c_cfg : config; c_steps : list (list label * obs) }.

Definition set_eqb (a b : list Z) : bool :=
  (length a =? length b)%nat && forallb (fun x => memz x b) a && forallb (fun x => memz x a) b.

Definition obs_eqb (s : state) (o : obs) : bool :=
  list_eqb (pair_eqb Z.eqb Z.eqb) (map (fun m => (m_ep m, m_st m)) (active s)) (o_active o)
  && set_eqb (idle s) (o_idle o) && set_eqb (pending s) (o_pending o) && (total s =? o_total o).

Fixpoint run_steps (c : config) (s : state) (steps : list (list label * obs)) : bool :=
  match steps with
  | [] => true
  | (ls, o) :: r =>
      match run c s ls with
      | Ok s' => obs_eqb s' o && run_steps c s' r
      | _ => false
      end
  end.

Definition check_case (k : case) : bool := run_steps (c_cfg k) init (c_steps k).

(* explanation for a diverging case: index of the first failing step, the model's result there *)
Fixpoint explain_steps (c : config) (s : state) (steps : list (list label * obs)) (i : Z) : option (Z * result * option obs) :=
  match steps with
  | [] => None
  | (ls, o) :: r =>
      match run c s ls with
      | Ok s' => if obs_eqb s' o then explain_steps c s' r (i + 1) else Some (i, Ok s', Some o)
      | x => Some (i, x, Some o)
      end
  end.
Definition explain_case (k : case) := explain_steps (c_cfg k) init (c_steps k) 0.
