(* scales/varz.py  Ema.Update  over exact rationals.

     if self._time == -1:  self.value = float(sample)
     else:  window = exp(-delta / self._window);  self.value = sample * (1 - window) + self.value * window

   `math.exp` never enters the model: the weight w = exp(-delta/window) is an input, of which only
   0 <= w <= 1 is ever used (delta >= 0 is what MonoClock guarantees).  Argument order follows
   DESIGN.md: update v s w  with v = previous value, s = new sample, w = weight of the OLD value. *)
From Coq Require Import ZArith QArith.
Local Open Scope Q_scope.

Definition update (v s w : Q) : Q := s * (1 - w) + v * w.

(* one call of Ema.Update: [prev = None] is the `_time == -1` state *)
Definition ema_step (prev : option Q) (s w : Q) : Q :=
  match prev with
  | None => s
  | Some v => update v s w
  end.

Definition weight_ok (w : Q) : bool := Qle_bool 0 w && Qle_bool w 1.

(* |a - b| <= eps * (1 + |b|) without Qabs: the float result of the implementation is compared with
   the exact rational within 10^-9 (DESIGN 4.3) *)
Definition eps : Q := 1 # 1000000000.
Definition qabs (x : Q) : Q := if Qle_bool 0 x then x else - x.
Definition close (a b : Q) : bool :=
  Qle_bool (a - b) (eps * (1 + qabs b)) && Qle_bool (b - a) (eps * (1 + qabs b)).

(* iterating the EMA on a constant sample s from v with weights ws *)
Fixpoint iterate (v s : Q) (ws : list Q) : Q :=
  match ws with
  | nil => v
  | cons w r => iterate (update v s w) s r
  end.
