(* Reply routing on one connection (C02).  A "connection" is one socket incarnation: the serial transport
   closes and re-opens its socket on a timeout and closes it on any fault (scales/thrift/sink.py
   _AsyncProcessTransaction / _Fault), the mux transport shuts down on any fault (scales/mux/sink.py
   _Shutdown), so whatever an old incarnation still carries is never read.

   Serial (scales/thrift/sink.py): at most one transaction at a time (_processing), the reply read from the
   socket goes to that transaction's sink stack.
   Mux (scales/mux/sink.py): the reply frame's tag selects the sink stack in _tag_map (_ProcessTaggedReply /
   _ReleaseTag); a timed-out request keeps its entry until the peer answers; frames naming a tag that is not in
   the map are ignored.

   Peer contract (a well-behaved server): it answers each request at most once, on the connection it arrived on;
   serial: in arrival order; mux: with the tag the request carried.  Calls are numbers; the reply to request c
   is "reply c". *)
From Scales Require Import Model.Base.
Local Open Scope Z_scope.

(* ------------------------------------------------------------------------------------------------ *)
(* serial *)
Module Serial.

Record st := {
  owner : option Z;          (* the call whose transaction is using the connection (last writer) *)
  unanswered : list Z;       (* requests written, not yet answered by the peer (peer side, FIFO) *)
  pipe : list Z;             (* replies produced by the peer, not yet read by the client (FIFO): reply c' *)
  delivered : list (Z * Z);  (* (call that received, request the reply was produced for), newest first *)
  closed : bool;
}.

Definition init : st := {| owner := None; unanswered := []; pipe := []; delivered := []; closed := false |}.

Inductive label :=
| Write (c : Z)        (* the transaction of call c writes its request *)
| PeerReply            (* the peer answers its oldest unanswered request *)
| Read (c : Z)         (* call c's transaction reads one reply off the socket *)
| Close.               (* timeout / fault / close: the incarnation ends *)

Definition step (s : st) (l : label) : option st :=
  if closed s then None else
  match l with
  | Write c =>
      (* serial discipline: nothing of an earlier transaction may be left on this incarnation *)
      match unanswered s, pipe s with
      | [], [] => Some {| owner := Some c; unanswered := [c]; pipe := []; delivered := delivered s; closed := false |}
      | _, _ => None
      end
  | PeerReply =>
      match unanswered s with
      | c' :: rest => Some {| owner := owner s; unanswered := rest; pipe := pipe s ++ [c']; delivered := delivered s; closed := false |}
      | [] => None
      end
  | Read c =>
      match owner s, pipe s with
      | Some o, c' :: rest =>
          if o =? c then Some {| owner := None; unanswered := unanswered s; pipe := rest;
                                 delivered := (c, c') :: delivered s; closed := false |}
          else None
      | _, _ => None
      end
  | Close => Some {| owner := None; unanswered := unanswered s; pipe := pipe s; delivered := delivered s; closed := true |}
  end.

Fixpoint run (s : st) (ls : list label) : option st :=
  match ls with [] => Some s | l :: r => match step s l with Some s' => run s' r | None => None end end.

End Serial.

(* ------------------------------------------------------------------------------------------------ *)
(* multiplexed *)
Module Mux.

Record st := {
  tag_map : list (Z * Z);        (* client: tag -> call, requests written and not yet answered *)
  unanswered : list (Z * Z);     (* peer: (tag, request) received and not yet answered *)
  flying : list (Z * option Z);  (* frames sent by the peer, not yet processed: (tag, Some c') = reply to request c';
                                    (tag, None) = a frame that answers nothing *)
  delivered : list (Z * Z);      (* (call whose sink stack received it, request the reply was produced for) *)
  closed : bool;
}.

Definition init : st := {| tag_map := []; unanswered := []; flying := []; delivered := []; closed := false |}.

Fixpoint lookup (m : list (Z * Z)) (t : Z) : option Z :=
  match m with [] => None | (k, v) :: r => if k =? t then Some v else lookup r t end.
Fixpoint remove (m : list (Z * Z)) (t : Z) : list (Z * Z) :=
  match m with [] => [] | (k, v) :: r => if k =? t then remove r t else (k, v) :: remove r t end.
Definition has_tag (m : list (Z * Z)) (t : Z) : bool := match lookup m t with Some _ => true | None => false end.

Inductive label :=
| Write (c tag : Z)          (* request of call c written with this tag (the tag pool hands out unused tags: C11) *)
| PeerReply (tag c' : Z)     (* the peer answers request c' which it received with this tag *)
| PeerStray (tag : Z)        (* the peer sends a frame that answers nothing, naming a tag no request is using *)
| Recv                       (* the client processes the next frame *)
| Close.

Definition step (s : st) (l : label) : option st :=
  if closed s then None else
  match l with
  | Write c tag =>
      if has_tag (tag_map s) tag then None else
      Some {| tag_map := (tag, c) :: tag_map s; unanswered := unanswered s ++ [(tag, c)]; flying := flying s;
              delivered := delivered s; closed := false |}
  | PeerReply tag c' =>
      match lookup (unanswered s) tag with
      | Some x => if x =? c' then
          Some {| tag_map := tag_map s; unanswered := remove (unanswered s) tag; flying := flying s ++ [(tag, Some c')];
                  delivered := delivered s; closed := false |}
          else None
      | None => None
      end
  | PeerStray tag =>
      if has_tag (tag_map s) tag then None else
      Some {| tag_map := tag_map s; unanswered := unanswered s; flying := flying s ++ [(tag, None)];
              delivered := delivered s; closed := false |}
  | Recv =>
      match flying s with
      | (tag, x) :: rest =>
          match lookup (tag_map s) tag, x with
          | Some c, Some c' =>
              Some {| tag_map := remove (tag_map s) tag; unanswered := unanswered s; flying := rest;
                      delivered := (c, c') :: delivered s; closed := false |}
          | Some c, None => None        (* excluded by PeerStray's guard and the invariant *)
          | None, _ => Some {| tag_map := tag_map s; unanswered := unanswered s; flying := rest;
                               delivered := delivered s; closed := false |}
          end
      | [] => None
      end
  | Close => Some {| tag_map := []; unanswered := unanswered s; flying := flying s; delivered := delivered s; closed := true |}
  end.

Fixpoint run (s : st) (ls : list label) : option st :=
  match ls with [] => Some s | l :: r => match step s l with Some s' => run s' r | None => None end end.

End Mux.

(* ---- correspondence ---------------------------------------------------------------------------- *)
Inductive case :=
| CSerial (ls : list Serial.label) (delivered : list (Z * Z))
| CMux (ls : list Mux.label) (delivered : list (Z * Z)).

Definition pairs_eqb : list (Z * Z) -> list (Z * Z) -> bool := list_eqb (pair_eqb Z.eqb Z.eqb).

Definition check_case (c : case) : bool :=
  match c with
  | CSerial ls d => match Serial.run Serial.init ls with Some s => pairs_eqb (Serial.delivered s) d | None => false end
  | CMux ls d => match Mux.run Mux.init ls with Some s => pairs_eqb (Mux.delivered s) d | None => false end
  end.

Definition explain_case (c : case) : option (list (Z * Z)) :=
  match c with
  | CSerial ls _ => match Serial.run Serial.init ls with Some s => Some (Serial.delivered s) | None => None end
  | CMux ls _ => match Mux.run Mux.init ls with Some s => Some (Mux.delivered s) | None => None end
  end.
