(* C20 (second half) - scales.core.ScalesUriParser.Parse over lists of code points.

   Transcribed from /repo/scales/core.py lines 98-141 and from CPython 3.12 urllib.parse.urlsplit
   (the part of it that acts on the URIs the parser is given):

     parsed = urlparse(uri)
     if '#' in parsed.path: path, fragment = parsed.path.split('#', 1) ...      (dead on Python 3)
     handler = self.handlers.get(parsed.scheme.lower(), None)                   {'tcp', 'zk'}
     if not handler: raise Exception("No handler found for prefix %s" % parsed.scheme)
     _HandleTcp:  for s in uri.netloc.split(','): host, port = s.split(':'); Endpoint(host, int(port))
     _HandleZooKeeper: ZooKeeperServerSetProvider(uri.netloc, uri.path,
                                                  endpoint_name=uri.fragment if uri.fragment else None)

   Environment (a parameter of the model, theorems hold for every environment): urlsplit's validation of
   a bracketed IPv6 literal (ipaddress module) and its NFKC check of a non-ASCII netloc. *)
From Coq Require Import String Ascii Decimal DecimalN.
From Scales Require Import Model.Base Model.Proxy.
Local Open Scope Z_scope.

Definition str := list Z.

Record env := Env {
  ipv6_ok : str -> bool;      (* urllib.parse._check_bracketed_host accepts the text between [ and ] *)
  nfkc_ok : str -> bool       (* urllib.parse._checknetloc accepts this non-ASCII netloc *)
}.

(* ---- string helpers (Python str methods) ----------------------------------------------------- *)
Definition mem (c : Z) (s : str) : bool := existsb (Z.eqb c) s.

(* s.split(sep, 1) when sep in s : text before / after the first occurrence; None when absent *)
Fixpoint cut (sep : Z) (s : str) : option (str * str) :=
  match s with
  | [] => None
  | c :: r => if c =? sep then Some ([], r)
              else match cut sep r with Some (a, b) => Some (c :: a, b) | None => None end
  end.

(* s.split(sep): never empty *)
Fixpoint split_on (sep : Z) (s : str) : list str :=
  match s with
  | [] => [[]]
  | c :: r => if c =? sep then [] :: split_on sep r
              else match split_on sep r with
                   | h :: t => (c :: h) :: t
                   | [] => [[c]]
                   end
  end.

Fixpoint join (sep : Z) (l : list str) : str :=
  match l with
  | [] => []
  | [x] => x
  | x :: r => x ++ sep :: join sep r
  end.

Definition is_alpha (c : Z) : bool := ((65 <=? c) && (c <=? 90)) || ((97 <=? c) && (c <=? 122)).
Definition is_digit (c : Z) : bool := (48 <=? c) && (c <=? 57).
Definition scheme_char (c : Z) : bool := is_alpha c || is_digit c || (c =? 43) || (c =? 45) || (c =? 46).
Definition lower (c : Z) : Z := if (65 <=? c) && (c <=? 90) then c + 32 else c.
Definition is_ascii (c : Z) : bool := c <? 128.

(* ---- urllib.parse.urlsplit ------------------------------------------------------------------- *)
Fixpoint lstrip_c0 (s : str) : str :=           (* url.lstrip(_WHATWG_C0_CONTROL_OR_SPACE) *)
  match s with
  | c :: r => if c <=? 32 then lstrip_c0 r else s
  | [] => []
  end.

Definition remove_unsafe (s : str) : str :=      (* for b in '\t\r\n': url = url.replace(b, '') *)
  filter (fun c => negb ((c =? 9) || (c =? 10) || (c =? 13))) s.

Definition split_scheme (url : str) : str * str :=
  match cut 58 url with
  | Some (c :: pre, rest) =>
      if is_alpha c && forallb scheme_char (c :: pre) then (map lower (c :: pre), rest) else ([], url)
  | _ => ([], url)
  end.

Definition is_delim (c : Z) : bool := (c =? 47) || (c =? 63) || (c =? 35).      (* / ? # *)
Fixpoint span_netloc (s : str) : str * str :=                                   (* _splitnetloc(url, 2) *)
  match s with
  | [] => ([], [])
  | c :: r => if is_delim c then ([], s) else let (a, b) := span_netloc r in (c :: a, b)
  end.

Definition bracketed (netloc : str) : str :=     (* netloc.partition('[')[2].partition(']')[0] *)
  match cut 91 netloc with
  | Some (_, after) => match cut 93 after with Some (h, _) => h | None => after end
  | None => []
  end.

Definition brackets_ok (e : env) (netloc : str) : bool :=
  let l := mem 91 netloc in let r := mem 93 netloc in
  if (l && negb r) || (r && negb l) then false
  else if l && r then ipv6_ok e (bracketed netloc) else true.

Definition checknetloc (e : env) (netloc : str) : bool :=
  match netloc with
  | [] => true
  | _ => if forallb is_ascii netloc then true else nfkc_ok e netloc
  end.

Record split := Split { u_scheme : str; u_netloc : str; u_path : str; u_query : str; u_fragment : str }.

(* if url[:2] == '//': netloc, url = _splitnetloc(url, 2) + the bracket checks; (netloc, rest, checks passed) *)
Definition split_netloc (e : env) (url1 : str) : str * str * bool :=
  match url1 with
  | c1 :: c2 :: r =>
      if (c1 =? 47) && (c2 =? 47)
      then let (n, rest) := span_netloc r in (n, rest, brackets_ok e n)
      else ([], url1, true)
  | _ => ([], url1, true)
  end.

(* None = ValueError *)
Definition urlsplit (e : env) (uri : str) : option split :=
  let url := remove_unsafe (lstrip_c0 uri) in
  let (scheme, url1) := split_scheme url in
  let '(netloc, url2, ok) := split_netloc e url1 in
  if negb ok then None else
  let (url3, fragment) := match cut 35 url2 with Some (a, b) => (a, b) | None => (url2, []) end in
  let (path, query) := match cut 63 url3 with Some (a, b) => (a, b) | None => (url3, []) end in
  if negb (checknetloc e netloc) then None else
  Some {| u_scheme := scheme; u_netloc := netloc; u_path := path; u_query := query; u_fragment := fragment |}.

(* ---- int(port) for ASCII text ------------------------------------------------------------------
   PyLong_FromString, base 10: surrounding whitespace, one optional sign, digits with single
   underscores between digits. *)
Definition is_space (c : Z) : bool := ((9 <=? c) && (c <=? 13)) || (c =? 32).
Fixpoint lstrip_space (s : str) : str :=
  match s with
  | c :: r => if is_space c then lstrip_space r else s
  | [] => []
  end.
Definition strip_space (s : str) : str := rev (lstrip_space (rev (lstrip_space s))).

Fixpoint digits_acc (s : str) (prev_us : bool) (acc : Z) : option Z :=
  match s with
  | [] => if prev_us then None else Some acc
  | c :: r => if is_digit c then digits_acc r false (acc * 10 + (c - 48))
              else if c =? 95 then (if prev_us then None else digits_acc r true acc)
              else None
  end.

Definition parse_int (s : str) : option Z :=
  let t := strip_space s in
  let (neg, u) := match t with
                  | c :: r => if c =? 43 then (false, r) else if c =? 45 then (true, r) else (false, t)
                  | [] => (false, t)
                  end in
  match u with
  | c :: r => if is_digit c
              then match digits_acc r false (c - 48) with
                   | Some n => Some (if neg then - n else n)
                   | None => None
                   end
              else None
  | [] => None
  end.

(* ---- ScalesUriParser --------------------------------------------------------------------------- *)
Definition tcp_scheme : str := Eval vm_compute in zs "tcp".
Definition zk_scheme : str := Eval vm_compute in zs "zk".

Inductive uri_result :=
| UTcp (eps : list (str * Z))                         (* StaticServerSetProvider, GetServers() in order *)
| UZk (hosts path : str) (endpoint : option str)      (* ZooKeeperServerSetProvider(hosts, path, endpoint_name) *)
| UNoHandler (scheme : str)                           (* Exception("No handler found for prefix <scheme>") *)
| UValueError.                                        (* ValueError from urlparse, the unpacking or int() *)

Definition rejected (r : uri_result) : Prop :=
  match r with UNoHandler _ | UValueError => True | _ => False end.

Fixpoint tcp_servers (pieces : list str) : option (list (str * Z)) :=
  match pieces with
  | [] => Some []
  | s :: r =>
      match split_on 58 s with
      | [host; port] =>                                  (* host, port = s.split(':') *)
          match parse_int port with
          | Some n => match tcp_servers r with Some l => Some ((host, n) :: l) | None => None end
          | None => None
          end
      | _ => None
      end
  end.

Definition handle_tcp (u : split) : uri_result :=
  match tcp_servers (split_on 44 (u_netloc u)) with Some eps => UTcp eps | None => UValueError end.

Definition handle_zk (u : split) : uri_result :=
  UZk (u_netloc u) (u_path u) (match u_fragment u with [] => None | f => Some f end).

Definition parse_uri (e : env) (uri : str) : uri_result :=
  match urlsplit e uri with
  | None => UValueError
  | Some u0 =>
      let u := if mem 35 (u_path u0)
               then match cut 35 (u_path u0) with
                    | Some (p, f) => {| u_scheme := u_scheme u0; u_netloc := u_netloc u0; u_path := p;
                                        u_query := u_query u0; u_fragment := f |}
                    | None => u0
                    end
               else u0 in
      let s := map lower (u_scheme u) in
      if zlist_eqb s tcp_scheme then handle_tcp u
      else if zlist_eqb s zk_scheme then handle_zk u
      else UNoHandler (u_scheme u)
  end.

(* ---- rendering (what a user writes; used by the theorems and checked against the harness' renderer) *)
Fixpoint digit_chars (u : Decimal.uint) : str :=
  match u with
  | Nil => []
  | D0 l => 48 :: digit_chars l | D1 l => 49 :: digit_chars l | D2 l => 50 :: digit_chars l
  | D3 l => 51 :: digit_chars l | D4 l => 52 :: digit_chars l | D5 l => 53 :: digit_chars l
  | D6 l => 54 :: digit_chars l | D7 l => 55 :: digit_chars l | D8 l => 56 :: digit_chars l
  | D9 l => 57 :: digit_chars l
  end.
Definition render_nat (n : Z) : str := digit_chars (N.to_uint (Z.to_N n)).       (* '%d' % n, n >= 0 *)
Definition render_ep (ep : str * Z) : str := fst ep ++ 58 :: render_nat (snd ep).
Definition render_tcp_as (scheme : str) (eps : list (str * Z)) : str :=           (* scheme://h:p,h:p,... *)
  scheme ++ 58 :: 47 :: 47 :: join 44 (map render_ep eps).
Definition render_tcp (eps : list (str * Z)) : str := render_tcp_as tcp_scheme eps.
Definition frag_suffix (name : option str) : str := match name with Some n => 35 :: n | None => [] end.
Definition render_zk (scheme hosts path : str) (name : option str) : str :=       (* scheme://hosts/path[#name] *)
  scheme ++ 58 :: 47 :: 47 :: hosts ++ path ++ frag_suffix name.

(* ---- predicates used by the theorems ------------------------------------------------------------ *)
(* a scheme as urlsplit recognises it: an ASCII letter followed by letters, digits, + - . *)
Definition valid_scheme (s : str) : bool :=
  match s with c :: _ => is_alpha c && forallb scheme_char s | [] => false end.
(* printable ASCII other than / ? # [ ] : may appear in a netloc (a zk host list contains , and :) *)
Definition netloc_char (c : Z) : bool :=
  (32 <=? c) && (c <? 127) && negb ((c =? 47) || (c =? 63) || (c =? 35) || (c =? 91) || (c =? 93)).
(* ... and other than , : : may appear in a tcp host *)
Definition host_char (c : Z) : bool := netloc_char c && negb ((c =? 44) || (c =? 58)).
(* not removed by urlsplit (tab, CR, LF) and not a fragment / query delimiter *)
Definition safe_char (c : Z) : bool := negb ((c =? 9) || (c =? 10) || (c =? 13)).
Definition path_char (c : Z) : bool := safe_char c && negb ((c =? 35) || (c =? 63)).

(* ---- correspondence cases ---------------------------------------------------------------------- *)
Definition ep_eqb : str * Z -> str * Z -> bool := pair_eqb zlist_eqb Z.eqb.
Definition uri_result_eqb (a b : uri_result) : bool :=
  match a, b with
  | UTcp x, UTcp y => list_eqb ep_eqb x y
  | UZk h p n, UZk h' p' n' => zlist_eqb h h' && zlist_eqb p p' && option_eqb zlist_eqb n n'
  | UNoHandler s, UNoHandler s' => zlist_eqb s s'
  | UValueError, UValueError => true
  | _, _ => false
  end.

Inductive ucase :=
| UParse (uri : str) (ipv6 nfkc : bool) (expect : uri_result)      (* the environment's answers, observed *)
| UTcpRendered (scheme : str) (eps : list (str * Z)) (uri : str)   (* uri = the harness' '%s:%d' rendering *)
               (ipv6 nfkc : bool) (expect : uri_result).

Definition const_env (ipv6 nfkc : bool) : env := {| ipv6_ok := fun _ => ipv6; nfkc_ok := fun _ => nfkc |}.

Definition check_ucase (c : ucase) : bool :=
  match c with
  | UParse uri i n e => uri_result_eqb (parse_uri (const_env i n) uri) e
  | UTcpRendered sch eps uri i n e =>
      zlist_eqb (render_tcp_as sch eps) uri && uri_result_eqb (parse_uri (const_env i n) (render_tcp_as sch eps)) e
  end.
