(* Model of scales.loadbalancer.zookeeper.ServerSet (as the code is now) together with the part of
   its environment it interacts with: one ZooKeeper directory, Kazoo's one-shot watches, the
   DataWatch / ChildrenWatch recipes (kazoo 2.11) and the consumer's on_join / on_leave callbacks.

   Environment (what harness/c19_fakezk.py implements and the Kazoo recipes do on it)
     parent, pz, zx, kids      the watched path (present?, its mzxid, zxid counter) and its children
     dw, cw                    armed one-shot watches: the DataWatch's watcher (at most one: Kazoo keeps
                               a set of equal bound methods) and the number of armed ChildrenWatch
                               instances (every instance has its own watcher)
     pending                   fired watch callbacks not yet run, FIFO (Kazoo's single callback worker);
                               a callback reads the tree when it is delivered, not when it fired
   Component (ServerSet + the recipe instances it created)
     dver                      DataWatch._version (None = path seen absent)
     watching, nodes, members, queue   the fields of the same names
     queue                     _notification_queue: change batches and all-members-left items (None)
     wk                        the notification worker: None = blocked in queue.get(), Some w = inside
                               _zk_nodes_to_members, blocked in zk.get of member w_cur
   Consumer
     armed                     number of upcoming callback invocations that will raise
     log                       every on_join / on_leave invocation, newest first

   Sets of names are lists; all functions treat them extensionally (mem / filter).  The iteration
   order of Python sets inside the worker is nondeterministic in the code: the order in which
   members are read is supplied by the WorkerStep label (hint), the order of on_leave calls inside
   one batch is compared up to commutation of events of different members. *)
From Scales Require Import Model.Base.
Local Open Scope Z_scope.

Definition name := Z.

Definition mem (n : name) (l : list name) : bool := existsb (Z.eqb n) l.
Definition remove_z (n : name) (l : list name) : list name := filter (fun x => negb (Z.eqb x n)) l.
Definition diff (a b : list name) : list name := filter (fun x => negb (mem x b)) a.
Definition union (a b : list name) : list name := diff a b ++ b.

Inductive pend := PData | PChild.
Inductive kind := Join | Leave.
Record event := Ev { ev_kind : kind; ev_name : name; ev_raised : bool }.

Definition batch := (list name * list name)%type.      (* (new_nodes, removed_nodes) *)

Record worker := Wk { w_cur : name; w_todo : list name; w_done : list name; w_rem : list name }.

Record state := St {
  filt : list name;            (* names rejected by member_filter (configuration) *)
  started : bool;              (* ServerSet constructed (with callbacks, so _monitor() ran) *)
  parent : bool; pz : Z; zx : Z; kids : list name;
  dw : bool; cw : nat; pending : list pend;
  dver : option Z; watching : bool;
  nodes : list name; members : list name;
  queue : list (option batch);   (* None = the all-members-left item put by _send_all_removed *)
  wk : option worker;
  armed : nat; log : list event }.

Definition init (f : list name) : state :=
  St f false false 0 0 [] false 0%nat [] None false [] [] [] None 0%nat [].

(* field updates *)
Definition set_started v s := St (filt s) v (parent s) (pz s) (zx s) (kids s) (dw s) (cw s) (pending s) (dver s) (watching s) (nodes s) (members s) (queue s) (wk s) (armed s) (log s).
Definition set_parent v s := St (filt s) (started s) v (pz s) (zx s) (kids s) (dw s) (cw s) (pending s) (dver s) (watching s) (nodes s) (members s) (queue s) (wk s) (armed s) (log s).
Definition set_pz v s := St (filt s) (started s) (parent s) v (zx s) (kids s) (dw s) (cw s) (pending s) (dver s) (watching s) (nodes s) (members s) (queue s) (wk s) (armed s) (log s).
Definition set_zx v s := St (filt s) (started s) (parent s) (pz s) v (kids s) (dw s) (cw s) (pending s) (dver s) (watching s) (nodes s) (members s) (queue s) (wk s) (armed s) (log s).
Definition set_kids v s := St (filt s) (started s) (parent s) (pz s) (zx s) v (dw s) (cw s) (pending s) (dver s) (watching s) (nodes s) (members s) (queue s) (wk s) (armed s) (log s).
Definition set_dw v s := St (filt s) (started s) (parent s) (pz s) (zx s) (kids s) v (cw s) (pending s) (dver s) (watching s) (nodes s) (members s) (queue s) (wk s) (armed s) (log s).
Definition set_cw v s := St (filt s) (started s) (parent s) (pz s) (zx s) (kids s) (dw s) v (pending s) (dver s) (watching s) (nodes s) (members s) (queue s) (wk s) (armed s) (log s).
Definition set_pending v s := St (filt s) (started s) (parent s) (pz s) (zx s) (kids s) (dw s) (cw s) v (dver s) (watching s) (nodes s) (members s) (queue s) (wk s) (armed s) (log s).
Definition set_dver v s := St (filt s) (started s) (parent s) (pz s) (zx s) (kids s) (dw s) (cw s) (pending s) v (watching s) (nodes s) (members s) (queue s) (wk s) (armed s) (log s).
Definition set_watching v s := St (filt s) (started s) (parent s) (pz s) (zx s) (kids s) (dw s) (cw s) (pending s) (dver s) v (nodes s) (members s) (queue s) (wk s) (armed s) (log s).
Definition set_nodes v s := St (filt s) (started s) (parent s) (pz s) (zx s) (kids s) (dw s) (cw s) (pending s) (dver s) (watching s) v (members s) (queue s) (wk s) (armed s) (log s).
Definition set_members v s := St (filt s) (started s) (parent s) (pz s) (zx s) (kids s) (dw s) (cw s) (pending s) (dver s) (watching s) (nodes s) v (queue s) (wk s) (armed s) (log s).
Definition set_queue v s := St (filt s) (started s) (parent s) (pz s) (zx s) (kids s) (dw s) (cw s) (pending s) (dver s) (watching s) (nodes s) (members s) v (wk s) (armed s) (log s).
Definition set_wk v s := St (filt s) (started s) (parent s) (pz s) (zx s) (kids s) (dw s) (cw s) (pending s) (dver s) (watching s) (nodes s) (members s) (queue s) v (armed s) (log s).
Definition set_armed v s := St (filt s) (started s) (parent s) (pz s) (zx s) (kids s) (dw s) (cw s) (pending s) (dver s) (watching s) (nodes s) (members s) (queue s) (wk s) v (log s).
Definition set_log v s := St (filt s) (started s) (parent s) (pz s) (zx s) (kids s) (dw s) (cw s) (pending s) (dver s) (watching s) (nodes s) (members s) (queue s) (wk s) (armed s) v.

(* ---------------------------------------------------------------------------------------------- *)
(* consumer callbacks: every invocation is logged; an armed invocation raises, and every call site *)
(* in ServerSet wraps the single call in try/except Exception (log and continue).                  *)
Definition call_cb (k : kind) (n : name) (s : state) : state :=
  match armed s with
  | O => set_log (Ev k n false :: log s) s
  | S a => set_log (Ev k n true :: log s) (set_armed a s)
  end.

(* member_filter *)
Definition flt (s : state) (n : name) : bool := negb (mem n (filt s)).

(* ---------------------------------------------------------------------------------------------- *)
(* ZooKeeper: a mutation fires the armed one-shot watches                                          *)
Definition fire_data (s : state) : state :=
  if dw s then set_dw false (set_pending (pending s ++ [PData]) s) else s.
Definition fire_children (s : state) : state :=
  set_cw 0%nat (set_pending (pending s ++ repeat PChild (cw s)) s).

(* ---------------------------------------------------------------------------------------------- *)
(* ServerSet._on_set_changed *)
Definition on_set_changed (children : list name) (s : state) : state :=
  let ch := filter (flt s) children in
  set_queue (queue s ++ [Some (diff ch (nodes s), diff (nodes s) ch)]) (set_nodes ch s).

(* ServerSet._send_all_removed (called from the data-watch callback): forgets the known nodes at
   once and hands the notification to the worker, behind the batches already queued *)
Definition send_all_removed (s : state) : state :=
  set_queue (queue s ++ [None]) (set_nodes [] s).

(* ServerSet._begin_watch: ChildrenWatch(...) registers its watcher and calls the function at once *)
Definition begin_watch (s : state) : state := on_set_changed (kids s) (set_cw (S (cw s)) s).

(* ServerSet._data_changed(data, stat) *)
Definition data_changed (s : state) : state :=
  if parent s then (if watching s then s else begin_watch (set_watching true s))
  else send_all_removed (set_watching false s).

(* DataWatch._get_data: get (or exists) re-arms the watcher; the function is called the first time
   and whenever the version (mzxid, None when absent) differs from the last one seen *)
Definition data_body (first : bool) (s : state) : state :=
  let ver := if parent s then Some (pz s) else None in
  let s1 := set_dver ver (set_dw true s) in
  if first || negb (option_eqb Z.eqb ver (dver s)) then data_changed s1 else s1.

(* ChildrenWatch._get_children on a fired watcher: NoNodeError stops the instance for good *)
Definition children_body (s : state) : state :=
  if parent s then on_set_changed (kids s) (set_cw (S (cw s)) s) else s.

(* ---------------------------------------------------------------------------------------------- *)
(* ServerSet._notification_worker *)
Fixpoint do_leaves (rem : list name) (s : state) : state :=
  match rem with
  | [] => s
  | m :: r => do_leaves r (if mem m (members s) then call_cb Leave m (set_members (remove_z m (members s)) s) else s)
  end.
Fixpoint do_joins (done : list name) (s : state) : state :=
  match done with [] => s | m :: r => do_joins r (call_cb Join m s) end.
Definition apply_batch (done rem : list name) (s : state) : state :=
  do_joins done (do_leaves rem (set_members (union done (members s)) s)).

(* which member the worker asks for next: the hint when admissible (set iteration order) *)
Definition pick (hint : option name) (todo : list name) : option (name * list name) :=
  match todo with
  | [] => None
  | t :: r => match hint with
              | Some h => if mem h todo then Some (h, remove_z h todo) else Some (t, r)
              | None => Some (t, r)
              end
  end.

Definition continue_batch (hint : option name) (todo done rem : list name) (s : state) : state :=
  match pick hint todo with
  | Some (nx, rest) => set_wk (Some (Wk nx rest done rem)) s
  | None => apply_batch done rem (set_wk None s)
  end.

(* takes items from the queue until one needs a read (queue.get() does not yield when an item is
   there); the all-members-left item becomes ((), list(self._members.keys())) when it is taken *)
Definition item_batch (s : state) (it : option batch) : batch :=
  match it with Some b => b | None => ([], members s) end.
Fixpoint drain_q (hint : option name) (q : list (option batch)) (s : state) : state :=
  match q with
  | [] => set_queue [] s
  | it :: q' =>
      let s1 := continue_batch hint (filter (flt s) (fst (item_batch s it))) [] (snd (item_batch s it)) (set_queue q' s) in
      match wk s1 with Some _ => s1 | None => drain_q hint q' s1 end
  end.
Definition drain (hint : option name) (s : state) : state := drain_q hint (queue s) s.

Definition read_found (s : state) (w : worker) : bool := parent s && mem (w_cur w) (kids s).

Definition worker_step (hint : option name) (s : state) : state :=
  match wk s with
  | Some w =>
      let done := if read_found s w then w_done w ++ [w_cur w] else w_done w in
      let s1 := continue_batch hint (w_todo w) done (w_rem w) s in
      match wk s1 with Some _ => s1 | None => drain hint s1 end
  | None => drain hint s
  end.

(* ---------------------------------------------------------------------------------------------- *)
(* what an armed consumer callback raises: an Exception subclass, or gevent.Timeout (a BaseException
   that is not an Exception; since 5b718d8 the handlers around on_leave / on_join in the worker read
   `except (Exception, gevent.Timeout)`, so both are logged and the batch goes on).  Other BaseExceptions
   (GreenletExit, KeyboardInterrupt, SystemExit) are requests to terminate the greenlet / process and are
   deliberately not caught by the code: they are outside the model and the generators. *)
Inductive raise_class := RException | RTimeout.

Inductive label :=
| Start                      (* ServerSet(zk, path, on_join, on_leave, member_filter) *)
| CreateParent | DeleteParent | TouchParent
| Create (n : name) | Delete (n : name)
| Deliver                    (* the oldest pending watch callback runs (DeliverData / DeliverChildren) *)
| WorkerStep (hint : option name)   (* the worker's in-flight read is answered / the worker runs until it blocks *)
| CallbackRaises (c : raise_class).   (* the next consumer callback invocation raises an error of class c *)

Definition step (s : state) (l : label) : state :=
  match l with
  | Start => if started s then s else data_body true (set_started true s)
  | CreateParent =>
      if parent s then s
      else fire_data (set_parent true (set_pz (zx s + 1) (set_zx (zx s + 1) s)))
  | TouchParent =>
      if parent s then fire_data (set_pz (zx s + 1) (set_zx (zx s + 1) s)) else s
  | DeleteParent =>
      if parent s then
        let s1 := match kids s with [] => s | _ :: _ => fire_children s end in
        fire_children (fire_data (set_parent false (set_kids [] s1)))
      else s
  | Create n =>
      if parent s && negb (mem n (kids s)) then fire_children (set_kids (n :: kids s) s) else s
  | Delete n =>
      if parent s && mem n (kids s) then fire_children (set_kids (remove_z n (kids s)) s) else s
  | Deliver =>
      match pending s with
      | [] => s
      | PData :: r => data_body false (set_pending r s)
      | PChild :: r => children_body (set_pending r s)
      end
  | WorkerStep h => if started s then worker_step h s else s
  | CallbackRaises _ => set_armed (S (armed s)) s    (* both classes reach the same handler *)
  end.

Definition run (s : state) (ls : list label) : state := fold_left step ls s.

(* ---------------------------------------------------------------------------------------------- *)
(* vocabulary of the property                                                                      *)

(* the set the consumer holds after applying the delivered joins and leaves in order *)
Fixpoint view (lg : list event) : list name :=
  match lg with
  | [] => []
  | e :: older => match ev_kind e with
                  | Join => ev_name e :: view older
                  | Leave => remove_z (ev_name e) (view older)
                  end
  end.

(* the members currently present under the watched path *)
Definition tree_members (s : state) : list name := if parent s then filter (flt s) (kids s) else [].

(* nothing left to do: no undelivered watch callback, empty queue, worker blocked in queue.get() *)
Definition quiescent (s : state) : Prop :=
  started s = true /\ pending s = [] /\ queue s = [] /\ wk s = None.
Definition quiescentb (s : state) : bool :=
  started s && match pending s, queue s, wk s with [], [], None => true | _, _, _ => false end.

Definition kind_eqb (a b : kind) : bool := match a, b with Join, Join | Leave, Leave => true | _, _ => false end.
Definition flip (k : kind) : kind := match k with Join => Leave | Leave => Join end.
Fixpoint alternating (expect : kind) (ks : list kind) : bool :=
  match ks with [] => true | k :: r => kind_eqb k expect && alternating (flip k) r end.
(* the kinds of the events delivered for member n, oldest first *)
Definition kinds_of (n : name) (chron : list event) : list kind :=
  map ev_kind (filter (fun e => Z.eqb (ev_name e) n) chron).

(* ---------------------------------------------------------------------------------------------- *)
(* guards used by C19_converges_partial (each excludes one schedule family on which the code fails) *)

(* the work the worker has not finished: the batch in progress, then the queued items *)
Definition outstanding (s : state) : list (option batch) :=
  match wk s with Some w => [Some (w_cur w :: w_todo w ++ w_done w, w_rem w)] | None => [] end
  ++ map (option_map (fun b => (filter (flt s) (fst b), snd b))) (queue s).
Definition bstep (n : name) (b : bool) (it : option batch) : bool :=
  match it with
  | Some bt => (b || mem n (fst bt)) && negb (mem n (snd bt))
  | None => false
  end.
(* will n be a member once the outstanding batches are applied (if its data can still be read)? *)
Definition expects (s : state) (n : name) : bool := fold_left (bstep n) (outstanding s) (mem n (members s)).
(* n is listed in _nodes but its read was skipped (it had vanished): nothing will announce it *)
Definition lost (s : state) (n : name) : bool := mem n (nodes s) && negb (expects s n).

Definition has_pdata (p : list pend) : bool := existsb (fun x => match x with PData => true | PChild => false end) p.

(* G2 (no unseen re-creation): a member whose read was skipped is not created again before a
   children notification has shown its absence. *)
Definition guard_noflap (s : state) (l : label) : bool :=
  match l with
  | Create n => if parent s && negb (mem n (kids s)) then negb (lost s n) else true
  | _ => true
  end.
(* G3 (path settles): the watched path is not deleted or created while a data-watch notification
   for it is still undelivered. *)
Definition guard_path (s : state) (l : label) : bool :=
  match l with
  | CreateParent => parent s || negb (has_pdata (pending s))
  | DeleteParent => negb (parent s) || negb (has_pdata (pending s))
  | _ => true
  end.

Definition guard_all (s : state) (l : label) : bool := guard_noflap s l && guard_path s l.

Fixpoint guarded (g : state -> label -> bool) (s : state) (ls : list label) : bool :=
  match ls with [] => true | l :: r => g s l && guarded g (step s l) r end.

(* erasing which callbacks raised (used to state callback isolation) *)
Definition erase_ev (e : event) : event := Ev (ev_kind e) (ev_name e) false.
Definition erase (s : state) : state := set_log (map erase_ev (log s)) (set_armed 0%nat s).
Definition is_raise (l : label) : bool := match l with CallbackRaises _ => true | _ => false end.

(* ---------------------------------------------------------------------------------------------- *)
(* correspondence: one observation of the implementation per label                                 *)
Record obs := Obs {
  o_events : list event;             (* callbacks invoked during the step, in order *)
  o_reads : list (name * bool);      (* member reads answered during the step (name, found) *)
  o_parked : option name;            (* member the worker is asking for after the step *)
  o_pending : list pend;             (* undelivered watch callbacks after the step *)
  o_dw : nat; o_cw : nat;            (* armed watchers after the step *)
  o_tree : option (list name);       (* the directory after the step *)
  o_exc : bool }.                    (* an exception escaped the constructor / a watch callback *)

(* a step carries an observation, or None: an intermediate worker step of an implementation run in which
   member reads are answered at once (synchronously completing zk.get): the implementation does not stop
   there, so nothing is compared until the next observed step, which sees the accumulated events and reads *)
Definition case := (list name * list (label * option obs))%type.

Definition event_eqb (a b : event) : bool :=
  kind_eqb (ev_kind a) (ev_kind b) && Z.eqb (ev_name a) (ev_name b) && Bool.eqb (ev_raised a) (ev_raised b).
Definition pend_eqb (a b : pend) : bool := match a, b with PData, PData | PChild, PChild => true | _, _ => false end.
Definition proj (n : name) (l : list event) : list event := filter (fun e => Z.eqb (ev_name e) n) l.
Definition count_raised (l : list event) : nat := length (filter ev_raised l).
(* equal up to commutation of events of different members of the same kind: the worker announces the
   leaves of a batch before its joins (a consumer that identifies members by endpoint relies on it when a
   server restarts under a new node name), so the sequence of kinds must agree exactly; the order among the
   leaves (resp. joins) of one batch is a set iteration order.  Which of the callbacks of one step raised
   depends on that order too, so only their number is compared *)
Definition events_equiv (a b : list event) : bool :=
  Nat.eqb (length a) (length b) && Nat.eqb (count_raised a) (count_raised b) &&
  list_eqb kind_eqb (map ev_kind a) (map ev_kind b) &&
  forallb (fun e => list_eqb event_eqb (proj (ev_name e) (map erase_ev a)) (proj (ev_name e) (map erase_ev b))) (a ++ b).
Definition subset (a b : list name) : bool := forallb (fun x => mem x b) a.
Definition set_eqb (a b : list name) : bool := subset a b && subset b a.

Definition model_reads (s : state) (l : label) : list (name * bool) :=
  match l with
  | WorkerStep _ => if started s then match wk s with Some w => [(w_cur w, read_found s w)] | None => [] end else []
  | _ => []
  end.

Definition obs_ok (reads : list (name * bool)) (s' : state) (o : obs) : bool :=
  events_equiv (rev (log s')) (o_events o)
  && list_eqb (pair_eqb Z.eqb Bool.eqb) reads (o_reads o)
  && option_eqb Z.eqb (option_map w_cur (wk s')) (o_parked o)
  && list_eqb pend_eqb (pending s') (o_pending o)
  && Nat.eqb (if dw s' then 1 else 0)%nat (o_dw o) && Nat.eqb (cw s') (o_cw o)
  && option_eqb set_eqb (if parent s' then Some (kids s') else None) (o_tree o)
  && negb (o_exc o).

(* s carries the log and acc the reads accumulated since the last observed step *)
Fixpoint check_steps (acc : list (name * bool)) (s : state) (tr : list (label * option obs)) : bool :=
  match tr with
  | [] => true
  | (l, None) :: r => check_steps (acc ++ model_reads s l) (step s l) r
  | (l, Some o) :: r => let s' := step s l in
      obs_ok (acc ++ model_reads s l) s' o && check_steps [] (set_log [] s') r
  end.
Definition check_case (c : case) : bool := check_steps [] (init (fst c)) (snd c).

(* index of the first step on which model and implementation differ, with the model's view of it *)
Fixpoint explain_steps (i : nat) (acc : list (name * bool)) (s : state) (tr : list (label * option obs))
  : option (nat * list event * option name * list pend * nat) :=
  match tr with
  | [] => None
  | (l, None) :: r => explain_steps (S i) (acc ++ model_reads s l) (step s l) r
  | (l, Some o) :: r => let s' := step s l in
      if obs_ok (acc ++ model_reads s l) s' o then explain_steps (S i) [] (set_log [] s') r
      else Some (i, rev (log s'), option_map w_cur (wk s'), pending s', cw s')
  end.
Definition explain_case (c : case) := explain_steps 0%nat [] (init (fst c)) (snd c).
