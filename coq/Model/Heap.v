(* Array heap of scales/loadbalancer/heap.py (class Heap: Swap, FixUp, FixDown) transcribed.

   The Python heap is a 1-based list (`heap[0]` is a sentinel that is never moved).  Here an array is a
   function `nat -> A`; only positions 1..n are ever read or written.  `Node.__lt__` compares
   `(load, index)`; `index` is kept equal to the array position by `Swap` (which re-assigns both
   indices) and by `_AddSink` (which appends with `index = size`), so the model compares
   `(key (f i), i)`.  The loops are structurally recursive on a fuel argument; Proofs/HeapP.v shows
   that the fuel passed by the callers (the start position for FixUp, the heap size for FixDown)
   is always sufficient (the result satisfies the heap order, which a truncated run would not). *)
From Coq Require Import ZArith List Bool Lia Arith PeanoNat.
Import ListNotations.
Local Open Scope nat_scope.

Section Heap.
Variable A : Type.
Variable key : A -> Z.

Definition arr := nat -> A.

Definition upd (f : arr) (i : nat) (x : A) : arr := fun k => if Nat.eqb k i then x else f k.

(* Heap.Swap: heap[i], heap[j] = heap[j], heap[i] (and index fields re-assigned to the positions) *)
Definition swap (f : arr) (i j : nat) : arr := upd (upd f i (f j)) j (f i).

(* Node.__lt__ of heap[i] against heap[j]:
     if self.load > other.load: False  elif self.load < other.load: True  else self.index < other.index *)
Definition lt (f : arr) (i j : nat) : bool :=
  if Z.ltb (key (f j)) (key (f i)) then false
  else if Z.ltb (key (f i)) (key (f j)) then true
  else Nat.ltb i j.

(* Heap.FixUp(heap, i):  while i != 1 and heap[i] < heap[i//2]: Swap(i, i//2); i //= 2 *)
Fixpoint fix_up (fuel : nat) (f : arr) (i : nat) : arr :=
  match fuel with
  | O => f
  | S fu =>
    if negb (Nat.eqb i 1) && lt f i (i / 2)
    then fix_up fu (swap f i (i / 2)) (i / 2)
    else f
  end.

(* Heap.FixDown(heap, i, j):
     while True:
       if j < i*2: break
       m = 2*i if (j == i*2 or heap[2*i] < heap[2*i+1]) else 2*i+1
       if heap[m] < heap[i]: Swap(i, m); i = m  else: break *)
Fixpoint fix_down (fuel : nat) (f : arr) (i j : nat) : arr :=
  match fuel with
  | O => f
  | S fu =>
    if Nat.ltb j (2 * i) then f else
    let m := if Nat.eqb j (2 * i) || lt f (2 * i) (2 * i + 1) then 2 * i else 2 * i + 1 in
    if lt f m i then fix_down fu (swap f i m) m j else f
  end.

(* list <-> array; position p of the array is element p-1 of the list *)
Definition to_fun (d : A) (l : list A) : arr :=
  fun i => match i with O => d | S k => nth k l d end.

Definition of_fun (f : arr) (n : nat) : list A := map f (seq 1 n).

End Heap.

Arguments upd {A}. Arguments swap {A}. Arguments lt {A}. Arguments fix_up {A}. Arguments fix_down {A}.
Arguments to_fun {A}. Arguments of_fun {A}.
