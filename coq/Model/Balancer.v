(* HeapBalancerSink (scales/loadbalancer/heap.py) + the membership part of LoadBalancerSink
   (scales/loadbalancer/base.py), transcribed as a label-driven state machine.  Shared by C03, C04, C05.

   State of the code                      | here
   ---------------------------------------+------------------------------------------------------------
   _heap[1:], _size                       | heap : list node   (position p = element p-1; _size = length)
   node.load / node.endpoint / node.channel| load / nep / nid   (nid = creation number of the channel sink)
   node.index                             | the position in `heap` (Swap/_AddSink keep index = position);
                                          |   index = -1  <->  the node is in `detached`
   _downq linked through node.downq       | downq : list Z (nids, head first)
   nodes that left the heap but are still | detached : list (node * bool); the bool is a GHOST (was the node
     referenced by PutWrapper closures    |   penalised when it left), never read by the transitions
   PutWrapper closures (n, put_called)    | reqs : list (rid, nid, put_called)
   _servers (dict)                        | servers : list Z (endpoints)
   __init_done / callbacks blocked on it  | init_done / blocked (serial delivery: applied in order)
   channel.state of every member channel  | chans (environment, set by label SetChan), default st0

   Nondeterminism is in the labels: the value j returned by random.randint(1, size) in __Put, the order of
   the initial server list after random.shuffle (Init carries it), channel states.
   ApertureBalancerSink with every member active (min_size >= number of members, no jitter) runs the same
   code paths (_OnNodeDown/_RemoveSink find no idle endpoint to add). *)
From Scales Require Import Model.Base Model.Heap.
Local Open Scope Z_scope.

Definition Idle : Z := -2147483647.        (* Int.MinValue + 1 *)
Definition Penalty : Z := 2147483647.      (* Int.MaxValue *)
Definition ST_OPEN : Z := 2.               (* ChannelState.Open *)

Record node := mkNode { nid : Z; nep : Z; load : Z }.
Definition dummy : node := mkNode (-1) (-1) Idle.       (* the sentinel heap[0]; never moved *)
Definition set_load (x : node) (v : Z) : node := mkNode (nid x) (nep x) v.

Inductive notif := NJoin (ep : Z) | NLeave (ep : Z).

Record state := mkState {
  heap : list node;
  downq : list Z;
  detached : list (node * bool);
  servers : list Z;
  next_nid : Z;
  reqs : list (Z * Z * bool);
  next_rid : Z;
  chans : list (Z * Z);
  st0 : Z;
  init_done : bool;
  blocked : list notif }.

Definition init_state (s0 : Z) : state := mkState [] [] [] [] 0 [] 0 [] s0 false [].

Inductive label :=
| Init (snapshot : list Z)        (* GetServers() returned (order after random.shuffle), _OpenImpl proceeds *)
| Join (ep : Z)                   (* server-set callback on_join *)
| Leave (ep : Z)                  (* server-set callback on_leave *)
| Dispatch                        (* _AsyncProcessRequestImpl *)
| Complete (rid : Z) (j : Z)      (* PutWrapper of request rid is invoked; j = what randint returned (0: not called) *)
| SetChan (n : Z) (st : Z).       (* environment: channel n now reports state st *)

Inductive event :=
| EUp (ep : Z)                    (* log 'Marking node ep up' *)
| EDown (ep : Z)                  (* log 'Marking node ep down' *)
| EClose (n : Z)                  (* channel n .Close() *)
| EWarn                           (* log 'Decrementing load below Zero' *)
| ECreate (n ep : Z).             (* sink_factory() called: channel n for endpoint ep *)

Inductive result :=
| RSent (n ep : Z)                (* request handed to channel n, endpoint ep stamped on the message *)
| RNoMembers                      (* FailingMessageSink(NoMembersError) *)
| RNotReady                       (* Dispatch before the initial list is installed: not modelled (C01/C02) *)
| RStuck                          (* __Get fuel exhausted - proved unreachable *)
| RPut (used_rand : bool)         (* __Put ran; used_rand: the idle re-insert branch consumed j *)
| RAlready                        (* put_called was set: nothing happens *)
| RNoReq                          (* no such request *)
| RBadRand                        (* j outside 1..size: randint cannot return it *)
| RGhost                          (* request refers to an unknown node - proved unreachable *)
| RBlocked                        (* notification waits on __init_done *)
| RApplied                        (* membership change / Init processed *)
| RIgnored                        (* Init when already initialised (Open() returns the same result) *)
| RSet.

Definition out := (result * list event)%type.

(* ---------------------------------------------------------------------------------------------- *)
(* heap primitives on the list representation                                                      *)
(* ---------------------------------------------------------------------------------------------- *)
Local Open Scope nat_scope.

Definition H_at (l : list node) (i : nat) : node := to_fun dummy l i.
Definition H_set_load (l : list node) (i : nat) (v : Z) : list node :=
  let f := to_fun dummy l in of_fun (upd f i (set_load (f i) v)) (length l).
Definition H_swap (l : list node) (i j : nat) : list node :=
  of_fun (swap (to_fun dummy l) i j) (length l).
Definition H_fix_up (l : list node) (i : nat) : list node :=
  of_fun (fix_up load i (to_fun dummy l) i) (length l).
Definition H_fix_down (l : list node) (i j : nat) : list node :=
  of_fun (fix_down load j (to_fun dummy l) i j) (length l).
Definition H_pop (l : list node) : list node := of_fun (to_fun dummy l) (length l - 1).

Fixpoint find_idx {A : Type} (p : A -> bool) (l : list A) (i : nat) : option nat :=
  match l with
  | [] => None
  | x :: r => if p x then Some i else find_idx p r (S i)
  end.

(* node.index for the node with this nid (None: index = -1) *)
Definition pos_of_nid (l : list node) (x : Z) : option nat := find_idx (fun n => Z.eqb (nid n) x) l 1.
(* _FindNodeByEndpoint *)
Definition pos_of_ep (l : list node) (ep : Z) : option nat := find_idx (fun n => Z.eqb (nep n) ep) l 1.

Local Open Scope Z_scope.

Definition lookup_chan (s : state) (x : Z) : Z :=
  match find (fun p => Z.eqb (fst p) x) (chans s) with
  | Some p => snd p
  | None => st0 s
  end.

Definition memz (x : Z) (l : list Z) : bool := existsb (Z.eqb x) l.

(* ---------------------------------------------------------------------------------------------- *)
(* __Get                                                                                           *)
(* ---------------------------------------------------------------------------------------------- *)

(* the inner `while n is not None` walk over _downq *)
Fixpoint walk (chan : Z -> Z) (l : list node) (dq : list Z) : list node * list Z * list event :=
  match dq with
  | [] => (l, [], [])
  | x :: r =>
    match pos_of_nid l x with
    | None => walk chan l r                                   (* n.index < 0: discarded, unlink *)
    | Some i =>
      if chan x =? ST_OPEN then                               (* resurrected *)
        let n := H_at l i in
        let l1 := H_fix_up (H_set_load l i (load n - Penalty)) i in
        let '(l2, r', ev) := walk chan l1 r in
        (l2, r', EUp (nep n) :: ev)
      else                                                    (* no change, keep in the list *)
        let '(l2, r', ev) := walk chan l r in
        (l2, x :: r', ev)
    end
  end.

(* the outer `while True` loop *)
Fixpoint get (fuel : nat) (chan : Z -> Z) (l : list node) (dq : list Z)
  : option (list node * list Z * list event) :=
  match fuel with
  | O => None
  | S fu =>
    let '(l1, dq1, ev1) := walk chan l dq in
    let r := H_at l1 1 in
    if (chan (nid r) =? ST_OPEN) || (0 <=? load r) then Some (l1, dq1, ev1)
    else
      (* node is now down: push on _downq, penalise, FixDown(1, size), _OnNodeDown (no-op), log *)
      let l2 := H_fix_down (H_set_load l1 1 (load r + Penalty)) 1 (length l1) in
      match get fu chan l2 (nid r :: dq1) with
      | Some (l3, dq3, ev3) => Some (l3, dq3, ev1 ++ EDown (nep r) :: ev3)
      | None => None
      end
  end.

Definition set_heap (s : state) (l : list node) : state :=
  mkState l (downq s) (detached s) (servers s) (next_nid s) (reqs s) (next_rid s) (chans s) (st0 s)
          (init_done s) (blocked s).

(* _AsyncProcessRequestImpl *)
Definition do_dispatch (s : state) : state * out :=
  if negb (init_done s) then (s, (RNotReady, [])) else
  match heap s with
  | [] => (s, (RNoMembers, []))
  | _ :: _ =>
    match get (S (length (heap s))) (lookup_chan s) (heap s) (downq s) with
    | None => (s, (RStuck, []))
    | Some (l1, dq1, ev) =>
      let r := H_at l1 1 in
      (* n.load += 1; FixDown(n.index = 1, size); push PutWrapper *)
      let l2 := H_fix_down (H_set_load l1 1 (load r + 1)) 1 (length l1) in
      (mkState l2 dq1 (detached s) (servers s) (next_nid s)
               ((next_rid s, nid r, false) :: reqs s) (next_rid s + 1) (chans s) (st0 s)
               (init_done s) (blocked s),
       (RSent (nid r) (nep r), ev))
    end
  end.

(* ---------------------------------------------------------------------------------------------- *)
(* __Put                                                                                           *)
(* ---------------------------------------------------------------------------------------------- *)

(* n.load -= 1; if n.load < Idle: warn; n.load = Idle *)
Definition clamp (v : Z) : Z * list event := if v <? Idle then (Idle, [EWarn]) else (v, []).

Fixpoint put_detached (d : list (node * bool)) (x : Z) : option (list (node * bool) * list event) :=
  match d with
  | [] => None
  | (nd, pen) :: r =>
    if nid nd =? x then
      let '(v, ev) := clamp (load nd - 1) in
      (* index < 0 and load > Idle: pass ; index < 0 and load == Idle: channel.Close() *)
      Some ((set_load nd v, pen) :: r, ev ++ (if v =? Idle then [EClose x] else []))
    else
      match put_detached r x with
      | Some (r', ev) => Some ((nd, pen) :: r', ev)
      | None => None
      end
  end.

Definition set_detached (s : state) (d : list (node * bool)) : state :=
  mkState (heap s) (downq s) d (servers s) (next_nid s) (reqs s) (next_rid s) (chans s) (st0 s)
          (init_done s) (blocked s).

Definition do_put (s : state) (x : Z) (j : Z) : state * out :=
  let l := heap s in
  let n := length l in
  match pos_of_nid l x with
  | Some i =>
    let nd := H_at l i in
    let '(v, ev) := clamp (load nd - 1) in
    let l1 := H_set_load l i v in
    if (v =? Idle) && (1 <? Z.of_nat n) then
      (* idle: remove the node from the heap and re-insert it at a random position *)
      if (1 <=? j) && (j <=? Z.of_nat n) then
        let jn := Z.to_nat j in
        let l2 := H_swap l1 i n in
        let l3 := H_fix_down l2 i (n - 1) in
        let l4 := if Nat.eqb i n then l3 else H_fix_up l3 i in
        let l5 := H_swap l4 jn n in
        let l6 := H_fix_up l5 jn in
        let l7 := H_fix_up l6 n in
        (set_heap s l7, (RPut true, ev))
      else (s, (RBadRand, []))
    else
      (set_heap s (H_fix_up l1 i), (RPut false, ev))
  | None =>
    match put_detached (detached s) x with
    | Some (d', ev) => (set_detached s d', (RPut false, ev))
    | None => (s, (RGhost, []))
    end
  end.

Fixpoint find_req (rs : list (Z * Z * bool)) (rid : Z) : option (Z * bool) :=
  match rs with
  | [] => None
  | (r, x, d) :: t => if r =? rid then Some (x, d) else find_req t rid
  end.

Fixpoint mark_done (rs : list (Z * Z * bool)) (rid : Z) : list (Z * Z * bool) :=
  match rs with
  | [] => []
  | (r, x, d) :: t => if r =? rid then (r, x, true) :: t else (r, x, d) :: mark_done t rid
  end.

Definition set_reqs (s : state) (rs : list (Z * Z * bool)) : state :=
  mkState (heap s) (downq s) (detached s) (servers s) (next_nid s) rs (next_rid s) (chans s) (st0 s)
          (init_done s) (blocked s).

(* PutWrapper *)
Definition do_complete (s : state) (rid j : Z) : state * out :=
  match find_req (reqs s) rid with
  | None => (s, (RNoReq, []))
  | Some (_, true) => (s, (RAlready, []))
  | Some (x, false) =>
    match do_put (set_reqs s (mark_done (reqs s) rid)) x j with
    | (_, (RBadRand, _)) => (s, (RBadRand, []))
    | r => r
    end
  end.

(* ---------------------------------------------------------------------------------------------- *)
(* membership: base.py __AddServer / __RemoveServer, heap.py _AddSink / _RemoveSink                *)
(* ---------------------------------------------------------------------------------------------- *)

Definition do_add_server (s : state) (ep : Z) : state * list event :=
  if memz ep (servers s) then (s, []) else
  let nd := mkNode (next_nid s) ep Idle in
  let l1 := heap s ++ [nd] in
  let l2 := H_fix_up l1 (length l1) in
  (mkState l2 (downq s) (detached s) (servers s ++ [ep]) (next_nid s + 1) (reqs s) (next_rid s)
           (chans s) (st0 s) (init_done s) (blocked s),
   [ECreate (next_nid s) ep]).

Definition remz (x : Z) (l : list Z) : list Z := filter (fun y => negb (Z.eqb x y)) l.

Definition do_remove_server (s : state) (ep : Z) : state * list event :=
  let srv := remz ep (servers s) in
  let l := heap s in
  let n := length l in
  match pos_of_ep l ep with
  | None =>
    (mkState l (downq s) (detached s) srv (next_nid s) (reqs s) (next_rid s) (chans s) (st0 s)
             (init_done s) (blocked s), [])
  | Some i =>
    let nd := H_at l i in
    let l2 := H_swap l i n in
    let l3 := H_fix_down l2 i (n - 1) in
    let l4 := if Nat.eqb i n then l3 else H_fix_up l3 i in
    let l5 := H_pop l4 in
    let pen := memz (nid nd) (downq s) in
    (* node.index = -1; if node.load == Idle or node.load >= 0: node.channel.Close() *)
    let ev := if (load nd =? Idle) || (0 <=? load nd) then [EClose (nid nd)] else [] in
    (mkState l5 (downq s) ((nd, pen) :: detached s) srv (next_nid s) (reqs s) (next_rid s) (chans s)
             (st0 s) (init_done s) (blocked s), ev)
  end.

Definition do_notif (s : state) (nt : notif) : state * list event :=
  match nt with
  | NJoin ep => do_add_server s ep
  | NLeave ep => do_remove_server s ep
  end.

Fixpoint do_notifs (s : state) (l : list notif) : state * list event :=
  match l with
  | [] => (s, [])
  | nt :: r =>
    let '(s1, ev1) := do_notif s nt in
    let '(s2, ev2) := do_notifs s1 r in
    (s2, ev1 ++ ev2)
  end.

Definition set_gate (s : state) (srv : list Z) (d : bool) (b : list notif) : state :=
  mkState (heap s) (downq s) (detached s) srv (next_nid s) (reqs s) (next_rid s) (chans s) (st0 s) d b.

(* _OpenImpl after GetServers(): _servers = {}; __AddServer each; __init_done.set(); the callbacks that
   were waiting on the event then run, serially, in arrival order *)
Definition do_init (s : state) (snapshot : list Z) : state * out :=
  if init_done s then (s, (RIgnored, [])) else
  let '(s1, ev1) := do_notifs (set_gate s [] false (blocked s)) (map NJoin snapshot) in
  let b := blocked s1 in
  let '(s2, ev2) := do_notifs (set_gate s1 (servers s1) true []) b in
  (s2, (RApplied, ev1 ++ ev2)).

Definition do_notify (s : state) (nt : notif) : state * out :=
  if init_done s then
    let '(s1, ev) := do_notif s nt in (s1, (RApplied, ev))
  else (set_gate s (servers s) false (blocked s ++ [nt]), (RBlocked, [])).

Definition step (s : state) (lb : label) : state * out :=
  match lb with
  | Init snap => do_init s snap
  | Join ep => do_notify s (NJoin ep)
  | Leave ep => do_notify s (NLeave ep)
  | Dispatch => do_dispatch s
  | Complete rid j => do_complete s rid j
  | SetChan x st =>
    (mkState (heap s) (downq s) (detached s) (servers s) (next_nid s) (reqs s) (next_rid s)
             ((x, st) :: chans s) (st0 s) (init_done s) (blocked s), (RSet, []))
  end.

Fixpoint run (s : state) (ls : list label) : state :=
  match ls with
  | [] => s
  | lb :: r => run (fst (step s lb)) r
  end.

(* ---------------------------------------------------------------------------------------------- *)
(* correspondence: the model is run on the labels the harness recorded while driving the real class, *)
(* and after every label its output (and, when the harness could read it, the heap array) must be   *)
(* equal to what the implementation did.                                                           *)
(* ---------------------------------------------------------------------------------------------- *)

Definition heap_view (s : state) : list (Z * Z) := map (fun n => (nid n, load n)) (heap s).

Fixpoint run_obs (s : state) (ls : list label) : list (out * list (Z * Z)) :=
  match ls with
  | [] => []
  | lb :: r => let '(s1, o) := step s lb in (o, heap_view s1) :: run_obs s1 r
  end.

Definition event_eqb (a b : event) : bool :=
  match a, b with
  | EUp x, EUp y => x =? y
  | EDown x, EDown y => x =? y
  | EClose x, EClose y => x =? y
  | EWarn, EWarn => true
  | ECreate x e, ECreate y e' => (x =? y) && (e =? e')
  | _, _ => false
  end.

Definition result_eqb (a b : result) : bool :=
  match a, b with
  | RSent x e, RSent y e' => (x =? y) && (e =? e')
  | RNoMembers, RNoMembers => true
  | RNotReady, RNotReady => true
  | RStuck, RStuck => true
  | RPut x, RPut y => Bool.eqb x y
  | RAlready, RAlready => true
  | RNoReq, RNoReq => true
  | RBadRand, RBadRand => true
  | RGhost, RGhost => true
  | RBlocked, RBlocked => true
  | RApplied, RApplied => true
  | RIgnored, RIgnored => true
  | RSet, RSet => true
  | _, _ => false
  end.

Definition out_eqb (a b : out) : bool := result_eqb (fst a) (fst b) && list_eqb event_eqb (snd a) (snd b).

Definition zz_eqb (a b : Z * Z) : bool := (fst a =? fst b) && (snd a =? snd b).

Definition obs_eqb (m : out * list (Z * Z)) (e : out * option (list (Z * Z))) : bool :=
  out_eqb (fst m) (fst e) &&
  match snd e with
  | None => true
  | Some h => list_eqb zz_eqb (snd m) h
  end.

Fixpoint all2 {A B : Type} (f : A -> B -> bool) (a : list A) (b : list B) : bool :=
  match a, b with
  | [], [] => true
  | x :: a', y :: b' => f x y && all2 f a' b'
  | _, _ => false
  end.

Record case := mkCase {
  c_st0 : Z;
  c_ops : list label;
  c_exp : list (out * option (list (Z * Z))) }.

Definition check_case (c : case) : bool :=
  all2 obs_eqb (run_obs (init_state (c_st0 c)) (c_ops c)) (c_exp c).

(* index of the first step that differs and what the model produced there *)
Fixpoint first_diff (i : Z) (a : list (out * list (Z * Z))) (b : list (out * option (list (Z * Z))))
  : option (Z * option (out * list (Z * Z))) :=
  match a, b with
  | [], [] => None
  | x :: a', y :: b' => if obs_eqb x y then first_diff (i + 1) a' b' else Some (i, Some x)
  | x :: _, [] => Some (i, Some x)
  | [], _ :: _ => Some (i, None)
  end.

Definition explain_case (c : case) := first_diff 0 (run_obs (init_state (c_st0 c)) (c_ops c)) (c_exp c).
