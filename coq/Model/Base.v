(* Common definitions used by every model and by the generated correspondence case files. *)
From Coq Require Export ZArith List Bool Lia.
Export ListNotations.

Fixpoint failing_from {A : Type} (f : A -> bool) (l : list A) (i : N) : list N :=
  match l with
  | [] => []
  | x :: r => if f x then failing_from f r (N.succ i) else i :: failing_from f r (N.succ i)
  end.

(* indices (from 0) of the cases on which the model-vs-implementation comparison fails *)
Definition failing {A : Type} (f : A -> bool) (l : list A) : list N := failing_from f l 0%N.

Fixpoint list_eqb {A : Type} (eqb : A -> A -> bool) (a b : list A) : bool :=
  match a, b with
  | [], [] => true
  | x :: a', y :: b' => eqb x y && list_eqb eqb a' b'
  | _, _ => false
  end.

Definition option_eqb {A : Type} (eqb : A -> A -> bool) (a b : option A) : bool :=
  match a, b with
  | None, None => true
  | Some x, Some y => eqb x y
  | _, _ => false
  end.

Definition pair_eqb {A B : Type} (ea : A -> A -> bool) (eb : B -> B -> bool) (a b : A * B) : bool :=
  ea (fst a) (fst b) && eb (snd a) (snd b).

Definition zlist_eqb : list Z -> list Z -> bool := list_eqb Z.eqb.

Lemma list_eqb_spec {A} (eqb : A -> A -> bool) :
  (forall x y, eqb x y = true <-> x = y) -> forall a b, list_eqb eqb a b = true <-> a = b.
Proof.
  intros H a. induction a as [|x a IH]; intros [|y b]; cbn; split; intros E; try congruence; try discriminate.
  - apply andb_true_iff in E as [E1 E2]. apply H in E1. apply IH in E2. congruence.
  - inversion E; subst. apply andb_true_iff. split; [apply H|apply IH]; reflexivity.
Qed.
