(* Text is a list of Unicode scalar values; str.encode('utf-8'). *)
From Scales Require Import Model.Base Model.Bytes.
Local Open Scope Z_scope.

Definition text := list Z.

Definition utf8_cp (c : Z) : option bytes :=
  if c <? 0 then None
  else if c <? 128 then Some [c]
  else if c <? 2048 then Some [192 + c / 64; 128 + c mod 64]
  else if (55296 <=? c) && (c <? 57344) then None            (* lone surrogate: UnicodeEncodeError *)
  else if c <? 65536 then Some [224 + c / 4096; 128 + (c / 64) mod 64; 128 + c mod 64]
  else if c <? 1114112 then Some [240 + c / 262144; 128 + (c / 4096) mod 64; 128 + (c / 64) mod 64; 128 + c mod 64]
  else None.

Fixpoint utf8 (t : text) : option bytes :=
  match t with
  | [] => Some []
  | c :: r => olet a := utf8_cp c in olet b := utf8 r in Some (a ++ b)
  end.
