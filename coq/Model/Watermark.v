(* Watermark pool (C07): transcription, branch for branch, of
     scales/pool/watermark.py  WatermarkPoolSink._Dequeue/_Get/_Release/_ProcessQueue/_OpenImpl/_FlushCache/Close,
                               QueuingMessageSink
     scales/pool/base.py       PoolSink.AsyncProcessRequest/AsyncProcessResponse
     scales/sink.py            ClientMessageSinkStack.AsyncProcessResponse (a drained stack ignores a response),
                               FailingMessageSink.AsyncProcessRequest
   The environment (provider, underlying sinks and their `state`, callers, the time-out of a queued call, the
   greenlet scheduler) enters through the labels, so every theorem holds for every behaviour of the environment.

   Identities: connections are numbered in the order the provider creates them (nsink), calls in the order
   they are issued (ncall).  ChannelState: Idle = 1, Open = 2, Busy = 3, Closed = 4. *)
From Scales Require Import Model.Base.
Local Open Scope Z_scope.

Record config := { cmin : Z; cmax : Z; cmaxq : Z }.     (* min_watermark, max_watermark, max_queue_len *)

Inductive label :=
| Req                       (* pool.AsyncProcessRequest for a new call (id = ncall), issued from its own greenlet *)
| OpenDone (s : Z)          (* the AsyncResult returned by connection s.Open() completes (either way) *)
| Resp (c : Z)              (* the stack of call c, lent a connection, is unwound (reply, error or in-flight time-out) *)
| Expire (c : Z)            (* the stack of the *queued* call c is drained by its timer (ClientTimeoutSink) *)
| PQ (k : nat)              (* the k-th spawned-and-not-yet-run _ProcessQueue greenlet runs (gevent: k = 0) *)
| SinkState (s v : Z)       (* connection s now reports `state` = v *)
| ClosePool                 (* pool.Close() *)
| OpenPool.                 (* pool.Open() : _OpenImpl runs on its own greenlet *)

Inductive obs :=
| OCreate (s : Z)           (* provider.CreateSink -> connection s (followed by s.Open()) *)
| OClose (s : Z)            (* s.Close() called by the pool (_DiscardSink) *)
| OForward (c s : Z)        (* s.AsyncProcessRequest(stack of c, ...) *)
| OError (c k : Z)          (* error message delivered to the caller of c: 1 MaxWaitersError, 2 ServiceClosedError, 3 TimeoutError *)
| ODone (c : Z)             (* the response travelled past the pool to the caller of c *)
| OSpawn (s : Z)            (* gevent.spawn(_ProcessQueue, s) *)
| OOpenResult (ok : bool)   (* pool.Open() completed / failed *)
| ODropped (s : Z).         (* ghost (not observable): s was counted down without being closed by the pool
                               (returned to a closed pool, or found dead on release) *)

Definition EMaxWaiters := 1.
Definition EServiceClosed := 2.
Definition ETimeout := 3.

Record state := {
  cache : list Z;                    (* _cache, left = oldest *)
  waiters : list (Z * bool);         (* _waiters: call id, and whether its sink stack is still non-empty *)
  size : Z;                          (* _current_size *)
  lent : list (Z * Z);               (* (connection, call) forwarded and not yet released *)
  opening : list (Z * option Z);     (* greenlets blocked in _Get on Open().wait(): Some call | None = pool Open() *)
  pq : list Z;                       (* spawned _ProcessQueue(connection) not yet run *)
  pstate : Z;                        (* pool _state *)
  sst : list (Z * Z);                (* environment: last reported state per connection (default Idle) *)
  nsink : Z;
  ncall : Z;
  gsize : Z;                         (* published gauge `size` *)
  gq : Z                             (* published gauge `queue_size` *)
}.

Definition init : state :=
  {| cache := []; waiters := []; size := 0; lent := []; opening := []; pq := []; pstate := 1; sst := [];
     nsink := 0; ncall := 0; gsize := 0; gq := 0 |}.

Definition set_cache v s := {| cache := v; waiters := waiters s; size := size s; lent := lent s; opening := opening s;
  pq := pq s; pstate := pstate s; sst := sst s; nsink := nsink s; ncall := ncall s; gsize := gsize s; gq := gq s |}.
Definition set_waiters v s := {| cache := cache s; waiters := v; size := size s; lent := lent s; opening := opening s;
  pq := pq s; pstate := pstate s; sst := sst s; nsink := nsink s; ncall := ncall s; gsize := gsize s; gq := gq s |}.
Definition set_size v s := {| cache := cache s; waiters := waiters s; size := v; lent := lent s; opening := opening s;
  pq := pq s; pstate := pstate s; sst := sst s; nsink := nsink s; ncall := ncall s; gsize := gsize s; gq := gq s |}.
Definition set_lent v s := {| cache := cache s; waiters := waiters s; size := size s; lent := v; opening := opening s;
  pq := pq s; pstate := pstate s; sst := sst s; nsink := nsink s; ncall := ncall s; gsize := gsize s; gq := gq s |}.
Definition set_opening v s := {| cache := cache s; waiters := waiters s; size := size s; lent := lent s; opening := v;
  pq := pq s; pstate := pstate s; sst := sst s; nsink := nsink s; ncall := ncall s; gsize := gsize s; gq := gq s |}.
Definition set_pq v s := {| cache := cache s; waiters := waiters s; size := size s; lent := lent s; opening := opening s;
  pq := v; pstate := pstate s; sst := sst s; nsink := nsink s; ncall := ncall s; gsize := gsize s; gq := gq s |}.
Definition set_pstate v s := {| cache := cache s; waiters := waiters s; size := size s; lent := lent s; opening := opening s;
  pq := pq s; pstate := v; sst := sst s; nsink := nsink s; ncall := ncall s; gsize := gsize s; gq := gq s |}.
Definition set_sst v s := {| cache := cache s; waiters := waiters s; size := size s; lent := lent s; opening := opening s;
  pq := pq s; pstate := pstate s; sst := v; nsink := nsink s; ncall := ncall s; gsize := gsize s; gq := gq s |}.
Definition set_nsink v s := {| cache := cache s; waiters := waiters s; size := size s; lent := lent s; opening := opening s;
  pq := pq s; pstate := pstate s; sst := sst s; nsink := v; ncall := ncall s; gsize := gsize s; gq := gq s |}.
Definition set_ncall v s := {| cache := cache s; waiters := waiters s; size := size s; lent := lent s; opening := opening s;
  pq := pq s; pstate := pstate s; sst := sst s; nsink := nsink s; ncall := v; gsize := gsize s; gq := gq s |}.
Definition set_gsize v s := {| cache := cache s; waiters := waiters s; size := size s; lent := lent s; opening := opening s;
  pq := pq s; pstate := pstate s; sst := sst s; nsink := nsink s; ncall := ncall s; gsize := v; gq := gq s |}.
Definition set_gq v s := {| cache := cache s; waiters := waiters s; size := size s; lent := lent s; opening := opening s;
  pq := pq s; pstate := pstate s; sst := sst s; nsink := nsink s; ncall := ncall s; gsize := gsize s; gq := v |}.

Definition zlen {A} (l : list A) : Z := Z.of_nat (length l).

(* ---- environment: connection states ---------------------------------------------------------- *)
Fixpoint lookup (m : list (Z * Z)) (s : Z) : Z :=
  match m with
  | [] => 1
  | (k, v) :: r => if k =? s then v else lookup r s
  end.
Definition sstate (st : state) (s : Z) : Z := lookup (sst st) s.

(* ---- generic list surgery ---------------------------------------------------------------------- *)
(* first element satisfying p, and the list without it *)
Fixpoint extract {A} (p : A -> bool) (l : list A) : option (A * list A) :=
  match l with
  | [] => None
  | x :: r => if p x then Some (x, r)
              else match extract p r with Some (y, r') => Some (y, x :: r') | None => None end
  end.

Fixpoint extract_nth {A} (k : nat) (l : list A) : option (A * list A) :=
  match l, k with
  | [], _ => None
  | x :: r, O => Some (x, r)
  | x :: r, S k' => match extract_nth k' r with Some (y, r') => Some (y, x :: r') | None => None end
  end.

(* ---- _DiscardSink: Unsubscribe, sink.Close() (a closed connection reports Closed) -------------- *)
Definition discard (s : Z) (st : state) : state * list obs :=
  (set_sst ((s, 4) :: sst st) st, [OClose s]).

(* ---- _Dequeue ---------------------------------------------------------------------------------- *)
(* while any(cache): item = popleft(); if item.state <= Open: return item; else size -= 1; discard(item) *)
Fixpoint dequeue (c : list Z) (m : list (Z * Z)) (sz : Z) : option Z * list Z * list (Z * Z) * Z * list obs :=
  match c with
  | [] => (None, [], m, sz, [])
  | s :: r =>
      if lookup m s <=? 2 then (Some s, r, m, sz, [])
      else let '(o, c', m', sz', ob) := dequeue r ((s, 4) :: m) (sz - 1) in (o, c', m', sz', OClose s :: ob)
  end.

(* ---- _Get -------------------------------------------------------------------------------------- *)
Inductive got := GSink (s : Z) | GOpening | GQueue | GFail.

Definition get (cf : config) (who : option Z) (st : state) : got * state * list obs :=
  let '(o, c', m', sz', ob) := dequeue (cache st) (sst st) (size st) in
  let st1 := set_size sz' (set_sst m' (set_cache c' st)) in
  match o with
  | Some s => (GSink s, st1, ob)
  | None =>
      if size st1 <? cmax cf then
        (* size += 1; publish; CreateSink; Subscribe; Open().wait()  -- the greenlet blocks here *)
        let s := nsink st1 in
        let st2 := set_gsize (size st1 + 1) (set_size (size st1 + 1) st1) in
        (GOpening, set_opening (opening st2 ++ [(s, who)]) (set_nsink (s + 1) st2), ob ++ [OCreate s])
      else if zlen (waiters st1) + 1 >? cmaxq cf then (GFail, st1, ob)
      else (GQueue, set_gq (zlen (waiters st1) + 1) st1, ob)
  end.

(* ---- Close ------------------------------------------------------------------------------------- *)
(* _FlushCache closes every cached connection but leaves _cache as it is *)
Fixpoint flush (c : list Z) (m : list (Z * Z)) : list (Z * Z) * list obs :=
  match c with
  | [] => (m, [])
  | s :: r => let '(m', ob) := flush r ((s, 4) :: m) in (m', OClose s :: ob)
  end.

(* FailingMessageSink(ServiceClosedError) on every waiter; a drained stack swallows the message;
   _waiters itself is left as it is (all stacks are empty afterwards) *)
Definition fail_obs (ws : list (Z * bool)) : list obs :=
  flat_map (fun w : Z * bool => if snd w then [OError (fst w) EServiceClosed] else []) ws.
Definition kill (ws : list (Z * bool)) : list (Z * bool) := map (fun w : Z * bool => (fst w, false)) ws.

Definition close_pool (st : state) : state * list obs :=
  let '(m', ob) := flush (cache st) (sst st) in
  let ws := waiters st in
  (* each failed waiter unwinds through pool.AsyncProcessResponse -> _Release(queuing sink): publishes queue_size *)
  let g := if existsb snd ws then zlen ws else gq st in
  (set_gq g (set_waiters (kill ws) (set_sst m' (set_pstate 4 st))), ob ++ fail_obs ws).

(* ---- _Release (of a real connection) ----------------------------------------------------------- *)
Definition release (cf : config) (s : Z) (st : state) : state * list obs :=
  if pstate st =? 4 then
    let st1 := set_size (size st - 1) st in (set_gsize (size st1) st1, [ODropped s])
  else if sstate st s =? 4 then
    let st1 := set_size (size st - 1) st in
    let '(st2, ob) := close_pool st1 in
    (set_gsize (size st2) st2, ODropped s :: ob)
  else match waiters st with
  | _ :: _ => (set_gsize (size st) (set_pq (pq st ++ [s]) st), [OSpawn s])
  | [] =>
      if size st <=? cmin cf then (set_gsize (size st) (set_cache (cache st ++ [s]) st), [])
      else
        let st1 := set_size (size st - 1) st in
        discard s (set_gsize (size st1) st1)
  end.

(* _Release of a QueuingMessageSink / FailingMessageSink: only publishes queue_size *)
Definition release_noop (st : state) : state := set_gq (zlen (waiters st)) st.

(* ---- _ProcessQueue ----------------------------------------------------------------------------- *)
(* pops waiters until one with a non-empty stack is found *)
Fixpoint pq_loop (ws : list (Z * bool)) : option Z * list (Z * bool) :=
  match ws with
  | [] => (None, [])
  | (c, alive) :: r => if alive then (Some c, r) else pq_loop r
  end.

Definition process_queue (cf : config) (s : Z) (st : state) : state * list obs :=
  match waiters st with
  | [] => release cf s st
  | _ :: _ =>
      let '(o, ws') := pq_loop (waiters st) in
      let st1 := set_gq (zlen ws') (set_waiters ws' st) in
      match o with
      | Some c => (set_lent (lent st1 ++ [(s, c)]) st1, [OForward c s])
      | None => release cf s st1
      end
  end.

(* ---- _OpenImpl after _Get returned ------------------------------------------------------------- *)
Definition open_result (st : state) : state * list obs :=
  if pstate st =? 4 then (st, [OOpenResult false]) else (set_pstate 2 st, [OOpenResult true]).

Definition mark_dead (c : Z) (ws : list (Z * bool)) : list (Z * bool) :=
  map (fun w : Z * bool => if (fst w =? c) && snd w then (fst w, false) else w) ws.

(* ---- one label ---------------------------------------------------------------------------------- *)
Definition step (cf : config) (st : state) (l : label) : state * list obs :=
  match l with
  | Req =>
      let c := ncall st in
      let st0 := set_ncall (c + 1) st in
      let '(g, st1, ob) := get cf (Some c) st0 in
      match g with
      | GSink s => (set_lent (lent st1 ++ [(s, c)]) st1, ob ++ [OForward c s])
      | GOpening => (st1, ob)
      | GQueue => (set_waiters (waiters st1 ++ [(c, true)]) st1, ob)
      | GFail => (release_noop st1, ob ++ [OError c EMaxWaiters])
      end
  | OpenDone s =>
      match extract (fun e : Z * option Z => fst e =? s) (opening st) with
      | None => (st, [])
      | Some ((_, who), op') =>
          let st1 := set_opening op' st in
          match who with
          | Some c => (set_lent (lent st1 ++ [(s, c)]) st1, [OForward c s])
          | None =>
              let '(st2, ob) := release cf s st1 in
              let '(st3, ob') := open_result st2 in (st3, ob ++ ob')
          end
      end
  | Resp c =>
      match extract (fun e : Z * Z => snd e =? c) (lent st) with
      | None => (st, [])
      | Some ((s, _), le') =>
          let '(st1, ob) := release cf s (set_lent le' st) in (st1, ob ++ [ODone c])
      end
  | Expire c =>
      if existsb (fun w : Z * bool => (fst w =? c) && snd w) (waiters st)
      then (release_noop (set_waiters (mark_dead c (waiters st)) st), [OError c ETimeout])
      else (st, [])
  | PQ k =>
      match extract_nth k (pq st) with
      | None => (st, [])
      | Some (s, pq') => process_queue cf s (set_pq pq' st)
      end
  | SinkState s v => (set_sst ((s, v) :: sst st) st, [])
  | ClosePool => close_pool st
  | OpenPool =>
      (* _OpenImpl: a pool that is already Closed refuses at once (no _Get, no connect) *)
      if pstate st =? 4 then (st, [OOpenResult false]) else
      let '(g, st1, ob) := get cf None st in
      match g with
      | GSink s =>
          let '(st2, ob2) := release cf s st1 in
          let '(st3, ob3) := open_result st2 in (st3, ob ++ ob2 ++ ob3)
      | GOpening => (st1, ob)
      | GQueue | GFail =>
          let '(st3, ob3) := open_result (release_noop st1) in (st3, ob ++ ob3)
      end
  end.

(* ---- runs --------------------------------------------------------------------------------------- *)
Fixpoint run (cf : config) (st : state) (ls : list label) : state * list obs :=
  match ls with
  | [] => (st, [])
  | l :: r => let '(st1, ob) := step cf st l in let '(st2, ob') := run cf st1 r in (st2, ob ++ ob')
  end.

Definition reach (cf : config) (ls : list label) : state * list obs := run cf init ls.

(* ---- correspondence ----------------------------------------------------------------------------- *)
Definition visible (o : obs) : bool := match o with ODropped _ => false | _ => true end.

Definition obs_eqb (a b : obs) : bool :=
  match a, b with
  | OCreate x, OCreate y => x =? y
  | OClose x, OClose y => x =? y
  | OForward c s, OForward c' s' => (c =? c') && (s =? s')
  | OError c k, OError c' k' => (c =? c') && (k =? k')
  | ODone x, ODone y => x =? y
  | OSpawn x, OSpawn y => x =? y
  | OOpenResult x, OOpenResult y => Bool.eqb x y
  | ODropped x, ODropped y => x =? y
  | _, _ => false
  end.

(* what the harness sees after every operation: the calls made on collaborators / callers during the
   operation, pool.state, and the two published gauges *)
Record seen := { sn_obs : list obs; sn_pstate : Z; sn_gsize : Z; sn_gq : Z }.

Definition seen_eqb (a b : seen) : bool :=
  list_eqb obs_eqb (sn_obs a) (sn_obs b) && (sn_pstate a =? sn_pstate b) && (sn_gsize a =? sn_gsize b)
  && (sn_gq a =? sn_gq b).

Fixpoint run_seen (cf : config) (st : state) (ls : list label) : list seen :=
  match ls with
  | [] => []
  | l :: r =>
      let '(st1, ob) := step cf st l in
      {| sn_obs := filter visible ob; sn_pstate := pstate st1; sn_gsize := gsize st1; sn_gq := gq st1 |}
      :: run_seen cf st1 r
  end.

Inductive case := Case (mn mx mq : Z) (ops : list label) (expected : list seen).

Definition check_case (c : case) : bool :=
  match c with
  | Case mn mx mq ops ex => list_eqb seen_eqb (run_seen {| cmin := mn; cmax := mx; cmaxq := mq |} init ops) ex
  end.

Definition explain_case (c : case) : list seen :=
  match c with
  | Case mn mx mq ops _ => run_seen {| cmin := mn; cmax := mx; cmaxq := mq |} init ops
  end.

(* short name used by the generated case files *)
Definition Sn := Build_seen.
