(* C08 - the two transports as transition systems.

   Serial  = scales/thrift/sink.py  SocketTransportSink (Open/_OpenImpl/_Fault/Close/state/_AsyncProcessTransaction/
             AsyncProcessRequest) over scales/varz.py VarzSocketWrapper (open/close/write/readAll, _is_open) over
             scales/scales_socket.py ScalesSocket (handle, open, close).
   Mux     = scales/mux/sink.py MuxSocketTransportSink (Open/_OpenImpl/_Shutdown/_SendLoop/_RecvLoop/_HandleTimeout/
             AsyncProcessRequest/_ProcessTaggedReply) + scales/thriftmux/sink.py SocketTransportSink (_PingLoop,
             _SendPingMessage, _PingTimeoutHelper, _OnPingResponse, _CheckInitialConnection, _Shutdown override).

   A label is one atomic piece of greenlet code between two blocking points (gevent greenlets only switch at blocking
   calls); the outcome of every I/O operation (ok / exception / end of stream), of every connect, the moment a
   gevent.Timeout is delivered, the order in which greenlets run and (Mux) the clock and the ping-loop's random
   draws are part of the labels, so a statement about all label sequences is a statement about every fault position,
   fault kind and schedule.  [step] returns [None] for labels the environment cannot produce in that state (e.g. a
   successful write on a socket that is not connected); theorems quantify over the admissible runs.  Each step
   returns the externally visible events it produced. *)
From Scales Require Import Model.Base.
Local Open Scope Z_scope.

Inductive io := IoOk | IoExn | IoEof.

Definition io_ok (r : io) : bool := match r with IoOk => true | _ => false end.

Fixpoint remove_z (c : Z) (l : list Z) : list Z :=
  match l with [] => [] | x :: r => if x =? c then remove_z c r else x :: remove_z c r end.

Definition mem_z (c : Z) (l : list Z) : bool := existsb (Z.eqb c) l.

(* ================================================================================================= *)
Module Serial.

Inductive chan := Idle | Open | Closed.
(* ScalesSocket.handle: None | assigned, connect() still running | assigned and connected *)
Inductive sock := SNone | SConnecting | SConn.
(* where the _AsyncProcessTransaction greenlet of the in-flight call is *)
Inductive stage :=
| Spawned     (* gevent.spawn done, not started yet *)
| Writing     (* deadline checked, gevent.Timeout armed, inside / about to call socket.write *)
| ReadHdr     (* inside readAll(4) *)
| ReadBody    (* inside readAll(sz) *)
| Reconn.     (* inside the Timeout handler: socket closed, socket.open() running *)
Inductive ostage := OSpawned | OConn.          (* the _OpenImpl greenlet *)
Inductive kind := KReply | KErr | KTimeout | KConc.
Inductive ev :=
| Post (c : Z) (k : kind)      (* a message is posted to call c's sink stack *)
| Faulted                      (* on_faulted.Set *)
| Wire (c : Z)                 (* c's request bytes were written to a connected socket *)
| Accepted (c : Z)             (* AsyncProcessRequest took c as the in-flight call *)
| Killed (c : Z)               (* Close() killed c's greenlet before it could answer *)
| ConnBegin.                   (* ScalesSocket.open assigned a new handle and started connect() *)

Record st := {
  sk : sock;
  wopen : bool;                      (* VarzSocketWrapper._is_open *)
  cst : chan;                        (* SocketTransportSink._state *)
  proc : option (Z * stage);         (* _processing *)
  openres : bool;                    (* _open_result is not None *)
  opn : option ostage;               (* a spawned, unfinished _OpenImpl *)
  seen : list Z;                     (* ghost: call ids used so far *)
}.

Definition init : st :=
  {| sk := SNone; wopen := false; cst := Idle; proc := None; openres := false; opn := None; seen := [] |}.

Definition set_sk (s : st) (x : sock) : st :=
  {| sk := x; wopen := wopen s; cst := cst s; proc := proc s; openres := openres s; opn := opn s; seen := seen s |}.
Definition set_wopen (s : st) (x : bool) : st :=
  {| sk := sk s; wopen := x; cst := cst s; proc := proc s; openres := openres s; opn := opn s; seen := seen s |}.
Definition set_cst (s : st) (x : chan) : st :=
  {| sk := sk s; wopen := wopen s; cst := x; proc := proc s; openres := openres s; opn := opn s; seen := seen s |}.
Definition set_proc (s : st) (x : option (Z * stage)) : st :=
  {| sk := sk s; wopen := wopen s; cst := cst s; proc := x; openres := openres s; opn := opn s; seen := seen s |}.
Definition set_openres (s : st) (x : bool) : st :=
  {| sk := sk s; wopen := wopen s; cst := cst s; proc := proc s; openres := x; opn := opn s; seen := seen s |}.
Definition set_opn (s : st) (x : option ostage) : st :=
  {| sk := sk s; wopen := wopen s; cst := cst s; proc := proc s; openres := openres s; opn := x; seen := seen s |}.
Definition add_seen (s : st) (c : Z) : st :=
  {| sk := sk s; wopen := wopen s; cst := cst s; proc := proc s; openres := openres s; opn := opn s; seen := c :: seen s |}.

(* the [state] property: Open whenever socket.isOpen() (handle is not None), else _state *)
Definition reported (s : st) : chan := match sk s with SNone => cst s | _ => Open end.

(* VarzSocketWrapper.close: only when _is_open; then ScalesSocket.close drops the handle *)
Definition wclose (s : st) : st := if wopen s then set_sk (set_wopen s false) SNone else s.

(* SocketTransportSink.Close: _state = Closed; socket.close(); _open_result = None; kill _processing *)
Definition do_close (s : st) : st := set_proc (set_openres (wclose (set_cst s Closed)) false) None.

(* _Fault: nothing when state == Closed, else Close() and on_faulted.Set *)
Definition fault (s : st) : st * list ev :=
  match reported s with Closed => (s, []) | _ => (do_close s, [Faulted]) end.

(* except Exception: _Fault(ex); _processing = None; post the error *)
Definition exn_path (s : st) (c : Z) : st * list ev :=
  let (s1, e) := fault s in (set_proc s1 None, e ++ [Post c KErr]).

(* except gevent.Timeout, first half: socket.close(); socket.open() assigns a handle and starts connect() *)
Definition timeout_enter (s : st) (c : Z) : st * list ev :=
  (set_proc (set_sk (wclose s) SConnecting) (Some (c, Reconn)), [ConnBegin]).

Inductive label :=
| LOpen                    (* Open() *)
| LOStart                  (* the _OpenImpl greenlet starts: socket.open() begins *)
| LOConn (ok : bool)       (* its connect() returns / raises *)
| LReq (c : Z)             (* AsyncProcessRequest for call c *)
| LStart (expired : bool)  (* c's transaction greenlet starts; expired = deadline - now <= 0 *)
| LWrite (r : io)          (* socket.write returns / raises *)
| LReadHdr (r : io)        (* readAll(4) returns / raises / hits end of stream *)
| LReadBody (r : io)       (* readAll(sz) *)
| LTimeout                 (* gevent.Timeout is delivered at the blocking point *)
| LReconn (ok : bool)      (* the handler's socket.open() returns / raises *)
| LClose (woke : bool).    (* Close(); woke = the in-flight greenlet's blocked I/O call raised (socket closed under
                              it) before the asynchronous kill arrived *)

Definition step (s : st) (l : label) : option (st * list ev) :=
  match l with
  | LOpen =>
      if openres s then Some (s, [])
      else match opn s with
           | None => Some (set_opn (set_openres s true) (Some OSpawned), [])
           | Some _ => None
           end
  | LOStart =>
      match opn s with
      | Some OSpawned => Some (set_opn (set_sk s SConnecting) (Some OConn), [ConnBegin])
      | _ => None
      end
  | LOConn ok =>
      match opn s with
      | Some OConn =>
          if ok then Some (set_opn (set_cst (set_wopen (set_sk s SConn) true) Open) None, [])
          else let (s1, e) := fault (set_sk s SNone) in Some (set_opn s1 None, e)
      | _ => None
      end
  | LReq c =>
      if mem_z c (seen s) then None else
      match proc s with
      | Some _ => Some (add_seen s c, [Post c KConc])
      | None => Some (set_proc (add_seen s c) (Some (c, Spawned)), [Accepted c])
      end
  | LStart expired =>
      match proc s with
      | Some (c, Spawned) =>
          if expired then Some (timeout_enter s c) else Some (set_proc s (Some (c, Writing)), [])
      | _ => None
      end
  | LWrite r =>
      match proc s with
      | Some (c, Writing) =>
          if io_ok r then
            match sk s with SConn => Some (set_proc s (Some (c, ReadHdr)), [Wire c]) | _ => None end
          else Some (exn_path s c)
      | _ => None
      end
  | LReadHdr r =>
      match proc s with
      | Some (c, ReadHdr) =>
          if io_ok r then
            match sk s with SConn => Some (set_proc s (Some (c, ReadBody)), []) | _ => None end
          else Some (exn_path s c)
      | _ => None
      end
  | LReadBody r =>
      match proc s with
      | Some (c, ReadBody) =>
          if io_ok r then
            match sk s with SConn => Some (set_proc s None, [Post c KReply]) | _ => None end
          else Some (exn_path s c)
      | _ => None
      end
  | LTimeout =>
      match proc s with
      | Some (c, Writing) | Some (c, ReadHdr) | Some (c, ReadBody) => Some (timeout_enter s c)
      | _ => None
      end
  | LReconn ok =>
      match proc s with
      | Some (c, Reconn) =>
          if ok then Some (set_proc (set_wopen (set_sk s SConn) true) None, [Post c KTimeout])
          else let (s1, e) := fault (set_sk s SNone) in Some (set_proc s1 None, e ++ [Post c KTimeout])
      | _ => None
      end
  | LClose woke =>
      match opn s with Some OConn => None | _ =>
      match proc s with
      | Some (_, Reconn) => None
      | Some (c, Spawned) => if woke then None else Some (do_close s, [Killed c])
      | Some (c, _) =>
          if woke then let (s1, e) := fault (do_close s) in Some (set_proc s1 None, e ++ [Post c KErr])
          else Some (do_close s, [Killed c])
      | None => if woke then None else Some (do_close s, [])
      end end
  end.

(* how the transport's owner uses it: the watermark pool waits for Open() before lending the sink, and Open() is
   not called on a sink that carries a request.  A closed or faulted sink MAY be opened again (a new incarnation). *)
Definition usage_ok (s : st) (l : label) : bool :=
  match l with
  | LReq _ => match opn s with None => true | _ => false end
  | LOpen => match proc s with None => true | _ => false end
  | _ => true
  end.

Fixpoint run (s : st) (ls : list label) : option (st * list ev) :=
  match ls with
  | [] => Some (s, [])
  | l :: r =>
      if usage_ok s l then
        match step s l with
        | Some (s1, e1) => match run s1 r with Some (s2, e2) => Some (s2, e1 ++ e2) | None => None end
        | None => None
        end
      else None
  end.

(* ---- correspondence ---- *)
Definition chan_eqb (a b : chan) : bool :=
  match a, b with Idle, Idle | Open, Open | Closed, Closed => true | _, _ => false end.
Definition kind_eqb (a b : kind) : bool :=
  match a, b with KReply, KReply | KErr, KErr | KTimeout, KTimeout | KConc, KConc => true | _, _ => false end.

Fixpoint posts (e : list ev) : list (Z * kind) :=
  match e with [] => [] | Post c k :: r => (c, k) :: posts r | _ :: r => posts r end.
Fixpoint nfaults (e : list ev) : Z :=
  match e with [] => 0 | Faulted :: r => 1 + nfaults r | _ :: r => nfaults r end.
Fixpoint wires (e : list ev) : list Z :=
  match e with [] => [] | Wire c :: r => c :: wires r | _ :: r => wires r end.

Definition pk_eqb (a b : Z * kind) : bool := (fst a =? fst b) && kind_eqb (snd a) (snd b).

Fixpoint remove1 {A} (eqb : A -> A -> bool) (x : A) (l : list A) : option (list A) :=
  match l with
  | [] => None
  | y :: r => if eqb x y then Some r else match remove1 eqb x r with Some r' => Some (y :: r') | None => None end
  end.
Fixpoint perm_eqb {A} (eqb : A -> A -> bool) (a b : list A) : bool :=
  match a with
  | [] => match b with [] => true | _ => false end
  | x :: r => match remove1 eqb x b with Some b' => perm_eqb eqb r b' | None => false end
  end.

(* one slice = the labels the implementation took between two observation points and what was observed *)
Record slice := {
  sl_labels : list label;
  sl_state : chan;                 (* sink.state at the end of the slice *)
  sl_posts : list (Z * kind);      (* messages that reached the calls' terminators during the slice *)
  sl_faults : Z;                   (* on_faulted notifications during the slice *)
  sl_wire : list Z;                (* request frames the peer side saw written during the slice *)
}.
Definition case := list slice.

Fixpoint check_from (s : st) (c : case) : bool :=
  match c with
  | [] => true
  | x :: r =>
      match run s (sl_labels x) with
      | Some (s1, e) =>
          chan_eqb (reported s1) (sl_state x) && perm_eqb pk_eqb (posts e) (sl_posts x) &&
          (nfaults e =? sl_faults x) && list_eqb Z.eqb (wires e) (sl_wire x) && check_from s1 r
      | None => false
      end
  end.
Definition check_case (c : case) : bool := check_from init c.

Fixpoint explain_from (s : st) (c : case) (i : Z) : Z * option (chan * list (Z * kind) * Z * list Z) :=
  match c with
  | [] => (-1, None)
  | x :: r =>
      match run s (sl_labels x) with
      | Some (s1, e) =>
          if chan_eqb (reported s1) (sl_state x) && perm_eqb pk_eqb (posts e) (sl_posts x) &&
             (nfaults e =? sl_faults x) && list_eqb Z.eqb (wires e) (sl_wire x)
          then explain_from s1 r (i + 1) else (i, Some (reported s1, posts e, nfaults e, wires e))
      | None => (i, None)
      end
  end.
Definition explain_case (c : case) := explain_from init c 0.

End Serial.

(* ================================================================================================= *)
Module Mux.

Inductive chan := Idle | Open | Closed.
Inductive item := IFrame (c : Z) | IPing | IDiscard.          (* what sits in _send_queue *)
Inductive frame := FReply (c : Z) | FPing | FOther.           (* a frame read off the wire: a reply naming the tag held
                                                                 by call c, an Rping on tag 1, anything else *)
Inductive sstage := SIdle | SSending (i : item) | SDead.      (* _SendLoop: in queue.get() | in socket.write | gone *)
Inductive rstage := RHdr | RBody | RDead.                     (* _RecvLoop: in readAll(4) | in readAll(sz) | gone *)
(* _OpenImpl: spawned | in connect | blocked in ar.get() on the first ping | made runnable, the ping result being
   successful / failed at the moment (it reads the result when it actually runs) *)
Inductive ostage := OSpawned | OConn | OPingWait | OWoken (ok : bool).
Inductive ploop := PNone | PSpawned | PSleep (p : Z).         (* _PingLoop: none | spawned | sleeping until p *)
Inductive kind := KReply | KClientErr | KNotOpen.
Inductive ev :=
| Post (c : Z) (k : kind)
| Faulted
| Wire (i : item)
| Accepted (c : Z)       (* c got a tag and entered _tag_map *)
| Released (c : Z)       (* c's frame was dropped from the send queue because its deadline had passed *)
| PingSent (t : Z)
| Pong                   (* the outstanding ping was answered *)
| ShutdownAt (t : Z).

Definition tps := 64.                 (* clock ticks per second *)
Definition ping_timeout := 5 * tps.

Record st := {
  now : Z;
  cst : chan;                  (* _state *)
  opn : option ostage;
  tagmap : list Z;             (* calls in _tag_map *)
  seen : list Z;               (* ghost: call ids used so far *)
  expired : list Z;            (* calls whose deadline event has been set *)
  queue : list item;           (* _send_queue, head first *)
  sndl : sstage;
  rcv : rstage;
  pending : list frame;        (* spawned _ProcessReply greenlets, oldest first *)
  par : bool;                  (* _ping_ar is not None *)
  ping_dl : option Z;          (* a _PingTimeoutHelper is blocked in ar.wait(5) until this time *)
  pl : ploop;
  lastw : Z;                   (* ghost: when the ping loop started / last woke *)
  lastping : Z;                (* ghost: when the last ping was queued *)
  waiting : list Z;            (* callers blocked in AsyncProcessRequest on _open_result.wait() *)
}.

Definition init (t0 : Z) : st :=
  {| now := t0; cst := Idle; opn := None; tagmap := []; seen := []; expired := []; queue := []; sndl := SDead;
     rcv := RDead; pending := []; par := false; ping_dl := None; pl := PNone; lastw := t0; lastping := t0; waiting := [] |}.

Definition set_now (s : st) x : st :=
  {| now := x; cst := cst s; opn := opn s; tagmap := tagmap s; seen := seen s; expired := expired s; queue := queue s; sndl := sndl s; rcv := rcv s; pending := pending s; par := par s; ping_dl := ping_dl s; pl := pl s; lastw := lastw s; lastping := lastping s; waiting := waiting s |}.
Definition set_cst (s : st) x : st :=
  {| now := now s; cst := x; opn := opn s; tagmap := tagmap s; seen := seen s; expired := expired s; queue := queue s; sndl := sndl s; rcv := rcv s; pending := pending s; par := par s; ping_dl := ping_dl s; pl := pl s; lastw := lastw s; lastping := lastping s; waiting := waiting s |}.
Definition set_opn (s : st) x : st :=
  {| now := now s; cst := cst s; opn := x; tagmap := tagmap s; seen := seen s; expired := expired s; queue := queue s; sndl := sndl s; rcv := rcv s; pending := pending s; par := par s; ping_dl := ping_dl s; pl := pl s; lastw := lastw s; lastping := lastping s; waiting := waiting s |}.
Definition set_tagmap (s : st) x : st :=
  {| now := now s; cst := cst s; opn := opn s; tagmap := x; seen := seen s; expired := expired s; queue := queue s; sndl := sndl s; rcv := rcv s; pending := pending s; par := par s; ping_dl := ping_dl s; pl := pl s; lastw := lastw s; lastping := lastping s; waiting := waiting s |}.
Definition set_seen (s : st) x : st :=
  {| now := now s; cst := cst s; opn := opn s; tagmap := tagmap s; seen := x; expired := expired s; queue := queue s; sndl := sndl s; rcv := rcv s; pending := pending s; par := par s; ping_dl := ping_dl s; pl := pl s; lastw := lastw s; lastping := lastping s; waiting := waiting s |}.
Definition set_expired (s : st) x : st :=
  {| now := now s; cst := cst s; opn := opn s; tagmap := tagmap s; seen := seen s; expired := x; queue := queue s; sndl := sndl s; rcv := rcv s; pending := pending s; par := par s; ping_dl := ping_dl s; pl := pl s; lastw := lastw s; lastping := lastping s; waiting := waiting s |}.
Definition set_queue (s : st) x : st :=
  {| now := now s; cst := cst s; opn := opn s; tagmap := tagmap s; seen := seen s; expired := expired s; queue := x; sndl := sndl s; rcv := rcv s; pending := pending s; par := par s; ping_dl := ping_dl s; pl := pl s; lastw := lastw s; lastping := lastping s; waiting := waiting s |}.
Definition set_sndl (s : st) x : st :=
  {| now := now s; cst := cst s; opn := opn s; tagmap := tagmap s; seen := seen s; expired := expired s; queue := queue s; sndl := x; rcv := rcv s; pending := pending s; par := par s; ping_dl := ping_dl s; pl := pl s; lastw := lastw s; lastping := lastping s; waiting := waiting s |}.
Definition set_rcv (s : st) x : st :=
  {| now := now s; cst := cst s; opn := opn s; tagmap := tagmap s; seen := seen s; expired := expired s; queue := queue s; sndl := sndl s; rcv := x; pending := pending s; par := par s; ping_dl := ping_dl s; pl := pl s; lastw := lastw s; lastping := lastping s; waiting := waiting s |}.
Definition set_pending (s : st) x : st :=
  {| now := now s; cst := cst s; opn := opn s; tagmap := tagmap s; seen := seen s; expired := expired s; queue := queue s; sndl := sndl s; rcv := rcv s; pending := x; par := par s; ping_dl := ping_dl s; pl := pl s; lastw := lastw s; lastping := lastping s; waiting := waiting s |}.
Definition set_par (s : st) x : st :=
  {| now := now s; cst := cst s; opn := opn s; tagmap := tagmap s; seen := seen s; expired := expired s; queue := queue s; sndl := sndl s; rcv := rcv s; pending := pending s; par := x; ping_dl := ping_dl s; pl := pl s; lastw := lastw s; lastping := lastping s; waiting := waiting s |}.
Definition set_ping_dl (s : st) x : st :=
  {| now := now s; cst := cst s; opn := opn s; tagmap := tagmap s; seen := seen s; expired := expired s; queue := queue s; sndl := sndl s; rcv := rcv s; pending := pending s; par := par s; ping_dl := x; pl := pl s; lastw := lastw s; lastping := lastping s; waiting := waiting s |}.
Definition set_pl (s : st) x : st :=
  {| now := now s; cst := cst s; opn := opn s; tagmap := tagmap s; seen := seen s; expired := expired s; queue := queue s; sndl := sndl s; rcv := rcv s; pending := pending s; par := par s; ping_dl := ping_dl s; pl := x; lastw := lastw s; lastping := lastping s; waiting := waiting s |}.
Definition set_lastw (s : st) x : st :=
  {| now := now s; cst := cst s; opn := opn s; tagmap := tagmap s; seen := seen s; expired := expired s; queue := queue s; sndl := sndl s; rcv := rcv s; pending := pending s; par := par s; ping_dl := ping_dl s; pl := pl s; lastw := x; lastping := lastping s; waiting := waiting s |}.
Definition set_lastping (s : st) x : st :=
  {| now := now s; cst := cst s; opn := opn s; tagmap := tagmap s; seen := seen s; expired := expired s; queue := queue s; sndl := sndl s; rcv := rcv s; pending := pending s; par := par s; ping_dl := ping_dl s; pl := pl s; lastw := lastw s; lastping := x; waiting := waiting s |}.

Definition set_waiting (s : st) x : st :=
  {| now := now s; cst := cst s; opn := opn s; tagmap := tagmap s; seen := seen s; expired := expired s; queue := queue s; sndl := sndl s; rcv := rcv s; pending := pending s; par := par s; ping_dl := ping_dl s; pl := pl s; lastw := lastw s; lastping := lastping s; waiting := x |}.

Definition item_eqb (a b : item) : bool :=
  match a, b with
  | IFrame x, IFrame y => x =? y
  | IPing, IPing | IDiscard, IDiscard => true
  | _, _ => false
  end.

(* the ping result gets an exception: the time-out helper wakes up (and finds the result unsuccessful and, after
   _Shutdown, the sink inactive), an _OpenImpl blocked on it becomes runnable *)
Definition wake_fail (o : option ostage) : option ostage :=
  match o with Some OPingWait => Some (OWoken false) | _ => o end.

Definition ar_fail (s : st) : st :=
  if par s then
    {| now := now s; cst := cst s; opn := wake_fail (opn s); tagmap := tagmap s; seen := seen s; expired := expired s;
       queue := queue s; sndl := sndl s; rcv := rcv s; pending := pending s; par := par s; ping_dl := None; pl := pl s;
       lastw := lastw s; lastping := lastping s; waiting := waiting s |}
  else s.

(* MuxSocketTransportSink._Shutdown(reason, fault), then the ThriftMux override: if self._ping_ar: set_exception *)
Definition shutdown (fault : bool) (s : st) : st * list ev :=
  match cst s with
  | Closed => (ar_fail s, [])
  | _ =>
      ({| now := now s; cst := Closed; opn := if par s then wake_fail (opn s) else opn s; tagmap := []; seen := seen s;
          expired := expired s; queue := []; sndl := SDead; rcv := RDead; pending := pending s; par := par s;
          ping_dl := if par s then None else ping_dl s; pl := PNone; lastw := lastw s; lastping := lastping s; waiting := waiting s |},
       (if fault then [Faulted] else []) ++ map (fun c => Post c KClientErr) (tagmap s) ++ [ShutdownAt (now s)])
  end.

Inductive label :=
| MTick (t : Z)              (* the clock moves to t; no armed timer is skipped *)
| MOpen                      (* Open() *)
| MOStart                    (* _OpenImpl starts: connect begins *)
| MOConn (ok : bool)         (* connect returns / raises *)
| MOResume                   (* _OpenImpl, made runnable by the first ping's result, runs *)
| MReq (c : Z)               (* AsyncProcessRequest for a two-way call c; while Open() is in progress the caller blocks *)
| MResumeReq (c : Z)         (* a caller blocked on the open result resumes: the state is examined now *)
| MExpire (c : Z)            (* c's deadline event is set (ClientTimeoutSink) and its subscribers are notified *)
| MTake                      (* _SendLoop: queue.get() returned, _HandleTimeout ran *)
| MWrote (r : io)            (* _SendLoop: socket.write returned / raised *)
| MRead (r : io) (f : frame) (* _RecvLoop: a readAll returned / raised; f = the frame completed by a body read *)
| MProcess                   (* the oldest spawned _ProcessReply runs *)
| MPingStart (d : Z)         (* _PingLoop's first iteration: draws d seconds *)
| MPingWake (d : Z)          (* _PingLoop wakes up: pings when active, draws d seconds *)
| MPingTimeout               (* _PingTimeoutHelper: ar.wait(5) ran out *)
| MClose.                    (* Close() *)

Definition in_queue (c : Z) (q : list item) : bool := existsb (item_eqb (IFrame c)) q.

Definition tick_ok (s : st) (t : Z) : bool :=
  (now s <=? t) &&
  match ping_dl s with Some d => t <=? d | None => true end &&
  match pl s with PSleep p => t <=? p | _ => true end.

(* _SendPingMessage: new result object, ping queued, helper spawned (it blocks in ar.wait(5) at once) *)
Definition send_ping (s : st) : st * list ev :=
  ({| now := now s; cst := cst s; opn := opn s; tagmap := tagmap s; seen := seen s; expired := expired s;
      queue := queue s ++ [IPing]; sndl := sndl s; rcv := rcv s; pending := pending s; par := true;
      ping_dl := Some (now s + ping_timeout); pl := pl s; lastw := lastw s; lastping := now s; waiting := waiting s |},
   [PingSent (now s)]).

Definition step (s : st) (l : label) : option (st * list ev) :=
  match l with
  | MTick t => if tick_ok s t then Some (set_now s t, []) else None
  | MOpen =>
      match cst s, opn s with
      | Idle, None => Some (set_opn (set_queue (set_tagmap s []) []) (Some OSpawned), [])     (* _Init, spawn _OpenImpl *)
      | Idle, Some _ | Open, _ => Some (s, [])     (* _open_result is set: the same result object is returned *)
      | Closed, None =>
          (* a second life is attempted: _Init (fresh map, queue, _ping_ar = None) and a new _OpenImpl; _state stays
             Closed, so the loops it spawns exit at once, the opening ping is never sent and the open fails after 5 s *)
          Some (set_opn (set_par (set_queue (set_tagmap s []) []) false) (Some OSpawned), [])
      | Closed, Some _ => None       (* Open() while an earlier _OpenImpl of the closed sink still runs: not modelled *)
      end
  | MOStart => match opn s with Some OSpawned => Some (set_opn s (Some OConn), []) | _ => None end
  | MOConn ok =>
      match opn s with
      | Some OConn =>
          if ok then
            (* loops spawned (they exit at once when the sink was closed meanwhile), _CheckInitialConnection:
               _SendPingMessage, then ar.get() *)
            let s1 := match cst s with Closed => s | _ => set_rcv (set_sndl s SIdle) RHdr end in
            let (s2, e) := send_ping s1 in Some (set_opn s2 (Some OPingWait), e)
          else
            let (s1, e) := shutdown true s in Some (set_opn s1 None, e)
      | _ => None
      end
  | MOResume =>
      match opn s with
      | Some (OWoken true) =>
          match cst s with
          | Closed => Some (set_opn s None, [])   (* shut down meanwhile: _OpenImpl raises; the spawned ping loop exits at once *)
          | _ => Some (set_opn (set_cst (set_pl s PSpawned) Open) None, [])   (* ping loop spawned; _state = Open *)
          end
      | Some (OWoken false) => Some (set_opn s None, [])
      | _ => None
      end
  | MReq c =>
      if mem_z c (seen s) then None else
      let s0 := set_seen s (c :: seen s) in
      match cst s, opn s with
      | Idle, Some _ => Some (set_waiting s0 (waiting s ++ [c]), [])     (* blocks in _open_result.wait() *)
      | Idle, None | Closed, _ => Some (s0, [Post c KNotOpen])
      | Open, _ => Some (set_queue (set_tagmap s0 (tagmap s ++ [c])) (queue s ++ [IFrame c]), [Accepted c])
      end
  | MResumeReq c =>
      (* the open result became ready (set after _state = Open, or given an exception by _Shutdown / the failed
         _OpenImpl): only now "Sink not open" is decided *)
      if mem_z c (waiting s) then
        let s0 := set_waiting s (remove_z c (waiting s)) in
        match cst s with
        | Idle => None
        | Closed => Some (s0, [Post c KNotOpen])
        | Open => Some (set_queue (set_tagmap s0 (tagmap s ++ [c])) (queue s ++ [IFrame c]), [Accepted c])
        end
      else None
  | MExpire c =>
      if mem_z c (seen s) && negb (mem_z c (expired s)) then
        let s0 := set_expired s (c :: expired s) in
        (* timeout_proc was subscribed when c's frame left the queue; it queues a Tdiscarded while c holds its tag *)
        if mem_z c (tagmap s) && negb (in_queue c (queue s)) then Some (set_queue s0 (queue s ++ [IDiscard]), [])
        else Some (s0, [])
      else None
  | MTake =>
      match sndl s, queue s with
      | SIdle, i :: q =>
          match i with
          | IFrame c =>
              if mem_z c (expired s) then
                if mem_z c (tagmap s) then Some (set_queue (set_tagmap s (remove_z c (tagmap s))) q, [Released c])
                else Some (set_queue s q, [])
              else Some (set_sndl (set_queue s q) (SSending i), [])
          | _ => Some (set_sndl (set_queue s q) (SSending i), [])
          end
      | _, _ => None
      end
  | MWrote r =>
      match sndl s with
      | SSending i => if io_ok r then Some (set_sndl s SIdle, [Wire i]) else Some (shutdown true s)
      | SDead => if io_ok r then None else Some (s, [])    (* a write that was blocked when the socket was closed *)
      | SIdle => None
      end
  | MRead r f =>
      match rcv s with
      | RDead => if io_ok r then None else Some (s, [])     (* the killed loop's last call: _Shutdown finds it inactive *)
      | RHdr => if io_ok r then Some (set_rcv s RBody, []) else Some (shutdown true s)
      | RBody => if io_ok r then Some (set_pending (set_rcv s RHdr) (pending s ++ [f]), []) else Some (shutdown true s)
      end
  | MProcess =>
      match pending s with
      | [] => None
      | f :: p =>
          let s0 := set_pending s p in
          match f with
          | FReply c =>
              if mem_z c (tagmap s) then Some (set_tagmap s0 (remove_z c (tagmap s)), [Post c KReply]) else Some (s0, [])
          | FPing =>
              (* _OnPingResponse: ar, self._ping_ar = self._ping_ar, None; ar.set() - also on a result that already
                 carries _Shutdown's exception *)
              if par s then
                Some (set_opn (set_ping_dl (set_par s0 false) None)
                              (match opn s with Some OPingWait | Some (OWoken _) => Some (OWoken true) | o => o end), [Pong])
              else Some (s0, [])
          | FOther => Some (s0, [])
          end
      end
  | MPingStart d =>
      match pl s with
      | PSpawned =>
          if (30 <=? d) && (d <=? 40) then
            match cst s with
            | Closed => Some (set_pl s PNone, [])
            | _ => Some (set_lastw (set_pl s (PSleep (now s + tps * d))) (now s), [])
            end
          else None
      | _ => None
      end
  | MPingWake d =>
      match pl s, ping_dl s with
      | PSleep p, None =>
          if (p =? now s) && (30 <=? d) && (d <=? 40) then
            let (s1, e) := send_ping s in Some (set_lastw (set_pl s1 (PSleep (now s + tps * d))) (now s), e)
          else None
      | _, _ => None
      end
  | MPingTimeout =>
      match ping_dl s with
      | Some d =>
          (* the helper took the result object at its start; it is still _ping_ar (an answered ping wakes the helper) *)
          if (d =? now s) && par s then Some (shutdown true s) else None
      | None => match cst s with Closed => Some (s, []) | _ => None end   (* woken by _Shutdown: finds the sink inactive *)
      end
  | MClose => Some (shutdown false s)
  end.

Fixpoint run (s : st) (ls : list label) : option (st * list ev) :=
  match ls with
  | [] => Some (s, [])
  | l :: r =>
      match step s l with
      | Some (s1, e1) => match run s1 r with Some (s2, e2) => Some (s2, e1 ++ e2) | None => None end
      | None => None
      end
  end.

(* ---- correspondence ---- *)
Definition chan_eqb (a b : chan) : bool :=
  match a, b with Idle, Idle | Open, Open | Closed, Closed => true | _, _ => false end.
Definition kind_eqb (a b : kind) : bool :=
  match a, b with KReply, KReply | KClientErr, KClientErr | KNotOpen, KNotOpen => true | _, _ => false end.

Fixpoint posts (e : list ev) : list (Z * kind) :=
  match e with [] => [] | Post c k :: r => (c, k) :: posts r | _ :: r => posts r end.
Fixpoint nfaults (e : list ev) : Z :=
  match e with [] => 0 | Faulted :: r => 1 + nfaults r | _ :: r => nfaults r end.
Fixpoint wires (e : list ev) : list item :=
  match e with [] => [] | Wire i :: r => i :: wires r | _ :: r => wires r end.
Definition pk_eqb (a b : Z * kind) : bool := (fst a =? fst b) && kind_eqb (snd a) (snd b).

Record slice := {
  sl_labels : list label;
  sl_state : chan;
  sl_posts : list (Z * kind);
  sl_faults : Z;
  sl_wire : list item;
}.
Record case := { c_t0 : Z; c_slices : list slice }.

Fixpoint check_from (s : st) (c : list slice) : bool :=
  match c with
  | [] => true
  | x :: r =>
      match run s (sl_labels x) with
      | Some (s1, e) =>
          chan_eqb (cst s1) (sl_state x) && Serial.perm_eqb pk_eqb (posts e) (sl_posts x) &&
          (nfaults e =? sl_faults x) && list_eqb item_eqb (wires e) (sl_wire x) && check_from s1 r
      | None => false
      end
  end.
Definition check_case (c : case) : bool := check_from (init (c_t0 c)) (c_slices c).

Fixpoint explain_from (s : st) (c : list slice) (i : Z) : Z * option (chan * list (Z * kind) * Z * list item) :=
  match c with
  | [] => (-1, None)
  | x :: r =>
      match run s (sl_labels x) with
      | Some (s1, e) =>
          if chan_eqb (cst s1) (sl_state x) && Serial.perm_eqb pk_eqb (posts e) (sl_posts x) &&
             (nfaults e =? sl_faults x) && list_eqb item_eqb (wires e) (sl_wire x)
          then explain_from s1 r (i + 1) else (i, Some (cst s1, posts e, nfaults e, wires e))
      | None => (i, None)
      end
  end.
Definition explain_case (c : case) := explain_from (init (c_t0 c)) (c_slices c) 0.

End Mux.

(* ================================================================================================= *)
Inductive case := CSerial (c : Serial.case) | CMux (c : Mux.case).

Definition check_case (c : case) : bool :=
  match c with CSerial x => Serial.check_case x | CMux x => Mux.check_case x end.

Definition explain_case (c : case) :=
  match c with
  | CSerial x => (Some (Serial.explain_case x), None)
  | CMux x => (None, Some (Mux.explain_case x))
  end.
