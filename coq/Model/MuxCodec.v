(* ThriftMux wire framing (C13): transcription of
     scales/thriftmux/sink.py      SocketTransportSink._BuildHeader/_EncodeTag, ThriftMuxMessageSerializerSink.ReadHeader
     scales/thriftmux/serializer.py MessageSerializer._Marshal_Tdispatch/_Marshal_Tdiscarded/_WriteContext/
                                    _ReadContext/_Unmarshal_Rdispatch (prefix up to the Thrift payload)
     scales/mux/sink.py            Tag.Encode, MuxSocketTransportSink.AsyncProcessRequest (header ++ body)
     scales/message.py             Message.public_properties
   plus an independent decoder written from the mux description (the parse_ functions), used by the theorems. *)
From Scales Require Import Model.Base Model.Bytes Model.Utf8.
Local Open Scope Z_scope.

(* ---- values carried in the context dictionary -------------------------------------------------- *)
Inductive cval :=
| VStr (t : text)
| VDeadline (ts timeout : Z)      (* message.Deadline: _ts, _timeout (nanoseconds) *)
| VOther.                         (* anything else: NotImplementedError *)

Definition entry := (text * cval)%type.

Definition text_eqb : text -> text -> bool := list_eqb Z.eqb.

(* dict.update: an existing key keeps its position and takes the new value; a new key is appended *)
Fixpoint dict_set (d : list entry) (k : text) (v : cval) : list entry :=
  match d with
  | [] => [(k, v)]
  | (k', v') :: r => if text_eqb k' k then (k', v) :: r else (k', v') :: dict_set r k v
  end.
Definition dict_update (d u : list entry) : list entry :=
  fold_left (fun acc kv => dict_set acc (fst kv) (snd kv)) u d.

(* Message.public_properties: keys not starting with "__" *)
Definition is_private (k : text) : bool :=
  match k with 95 :: 95 :: _ => true | _ => false end.
Definition public (d : list entry) : list entry := filter (fun kv => negb (is_private (fst kv))) d.

(* ---- the encoder, as written in the code ------------------------------------------------------ *)
Definition enc_tag (t : Z) : bytes :=
  [Z.land (Z.shiftr t 16) 255; Z.land (Z.shiftr t 8) 255; Z.land t 255].

(* pack('!ibBBB', 1 + 3 + data_len, msg_type, *EncodeTag(tag)) *)
Definition build_header (tag mtype data_len : Z) : option bytes :=
  olet a := pack_s 4 (1 + 3 + data_len) in
  olet b := pack_s 1 mtype in
  Some (a ++ b ++ enc_tag tag).

(* pack('!h%ds' % n, n, bs) with n = len(bs) *)
Definition write_lenpref (bs : bytes) : option bytes :=
  olet h := pack_s 2 (len bs) in Some (h ++ bs).

Definition write_entry (kv : entry) : option bytes :=
  olet kb := utf8 (fst kv) in
  olet k := write_lenpref kb in
  match snd kv with
  | VDeadline ts timeout =>
      olet h := pack_s 2 16 in
      olet a := pack_s 8 ts in
      olet b := pack_s 8 timeout in
      Some (k ++ h ++ a ++ b)
  | VStr t =>
      olet vb := utf8 t in
      olet v := write_lenpref vb in
      Some (k ++ v)
  | VOther => None
  end.

Fixpoint write_entries (ctx : list entry) : option bytes :=
  match ctx with
  | [] => Some []
  | kv :: r => olet a := write_entry kv in olet b := write_entries r in Some (a ++ b)
  end.

Definition write_context (ctx : list entry) : option bytes :=
  olet n := pack_s 2 (Z.of_nat (length ctx)) in
  olet es := write_entries ctx in
  Some (n ++ es).

(* _Marshal_Tdispatch: contexts, pack('!hh', 0, 0), then the Thrift call (opaque payload here) *)
Definition marshal_tdispatch (props headers : list entry) (payload : bytes) : option bytes :=
  olet c := write_context (dict_update (public props) headers) in
  Some (c ++ [0; 0; 0; 0] ++ payload).

(* _Marshal_Tdiscarded: pack('!BBB', *Tag(which).Encode()) ++ reason.encode('utf-8') *)
Definition marshal_tdiscarded (which : Z) (reason : text) : option bytes :=
  olet r := utf8 reason in Some (enc_tag which ++ r).

(* MuxSocketTransportSink.AsyncProcessRequest: header ++ stream.getvalue() *)
Definition frame (mtype tag : Z) (body : bytes) : option bytes :=
  olet h := build_header tag mtype (len body) in Some (h ++ body).

Definition T_dispatch : Z := 2.
Definition T_discarded : Z := 66.

Definition tdispatch_frame (tag : Z) (props headers : list entry) (payload : bytes) : option bytes :=
  olet b := marshal_tdispatch props headers payload in frame T_dispatch tag b.
Definition tdiscarded_frame (which : Z) (reason : text) : option bytes :=
  olet b := marshal_tdiscarded which reason in frame T_discarded 0 b.

(* ---- the reply-side readers, as written in the code ------------------------------------------- *)
(* ReadHeader: header, = unpack('!i', 4 bytes); type = header >> 24; tag = ((header << 8) & 0xFFFFFFFF) >> 8 *)
Definition read_header (s : bytes) : option (Z * Z * bytes) :=
  olet (h, rest) := read_n 4 s in
  let header := unpack_s 4 h in
  Some (Z.shiftr header 24, Z.shiftr (Z.land (Z.shiftl header 8) 4294967295) 8, rest).

(* _ReadContext: twice: sz = unpack('!h'); buf.read(sz).  BytesIO.read(sz) with sz < 0 reads everything
   that is left and a read past the end returns what is there (no error); unpack of fewer than 2 bytes
   raises. *)
Definition py_read (n : Z) (s : bytes) : bytes * bytes :=
  if n <? 0 then (s, []) else (take n s, drop n s).
Definition read_ctx_half (s : bytes) : option bytes :=
  olet (h, rest) := read_n 2 s in Some (snd (py_read (unpack_s 2 h) rest)).
Definition read_context (s : bytes) : option bytes :=
  olet a := read_ctx_half s in read_ctx_half a.
Fixpoint read_contexts (n : nat) (s : bytes) : option bytes :=
  match n with O => Some s | S n' => olet r := read_context s in read_contexts n' r end.

(* _Unmarshal_Rdispatch up to the point where the Thrift reply (or the error text) starts:
   status, nctx = unpack('!bh', 3 bytes); for n in range(0, nctx): _ReadContext *)
Definition unmarshal_rdispatch_prefix (s : bytes) : option (Z * bytes) :=
  olet (h, rest) := read_n 3 s in
  let status := unpack_s 1 (take 1 h) in
  let nctx := unpack_s 2 (drop 1 h) in
  olet r := read_contexts (Z.to_nat nctx) rest in
  Some (status, r).

(* ---- independent decoder (mux description: size:4 type:1 tag:3 body; Tdispatch body =
        nctx:2 (klen:2 key vlen:2 value)* dstlen:2 dst ndtab:2 (slen:2 src dlen:2 dst)* payload) ----- *)
Definition parse_u (k : Z) (s : bytes) : option (Z * bytes) :=
  olet (h, rest) := read_n k s in Some (unbe h, rest).
Definition parse_lp (s : bytes) : option (bytes * bytes) :=
  olet (n, r) := parse_u 2 s in read_n n r.

Fixpoint parse_pairs (n : nat) (s : bytes) : option (list (bytes * bytes) * bytes) :=
  match n with
  | O => Some ([], s)
  | S n' =>
      olet (k, r1) := parse_lp s in
      olet (v, r2) := parse_lp r1 in
      olet (ps, r3) := parse_pairs n' r2 in
      Some ((k, v) :: ps, r3)
  end.

Record tdispatch := { td_ctx : list (bytes * bytes); td_dst : bytes; td_dtab : list (bytes * bytes); td_payload : bytes }.

Definition parse_tdispatch (body : bytes) : option tdispatch :=
  olet (n, r) := parse_u 2 body in
  olet (ctx, r1) := parse_pairs (Z.to_nat n) r in
  olet (dst, r2) := parse_lp r1 in
  olet (nd, r3) := parse_u 2 r2 in
  olet (dtab, r4) := parse_pairs (Z.to_nat nd) r3 in
  Some {| td_ctx := ctx; td_dst := dst; td_dtab := dtab; td_payload := r4 |}.

Definition signed8 (b : Z) : Z := if b <? 128 then b else b - 256.

(* a frame: declared size must equal the number of bytes that follow; returns (type, tag, body) *)
Definition parse_frame (f : bytes) : option (Z * Z * bytes) :=
  olet (sz, r) := parse_u 4 f in
  if negb (sz =? len r) then None else
  olet (t, r1) := parse_u 1 r in
  olet (tag, body) := parse_u 3 r1 in
  Some (signed8 t, tag, body).

Definition parse_tdiscarded (body : bytes) : option (Z * bytes) := parse_u 3 body.

(* what the independent decoder is expected to recover for a context entry *)
Definition enc_val (v : cval) : option bytes :=
  match v with
  | VStr t => utf8 t
  | VDeadline ts timeout => olet a := pack_s 8 ts in olet b := pack_s 8 timeout in Some (a ++ b)
  | VOther => None
  end.
Fixpoint enc_ctx (ctx : list entry) : option (list (bytes * bytes)) :=
  match ctx with
  | [] => Some []
  | (k, v) :: r => olet kb := utf8 k in olet vb := enc_val v in olet rest := enc_ctx r in Some ((kb, vb) :: rest)
  end.

(* reference encoder for the context section of an Rdispatch reply (for C13_rdispatch_skip) *)
Fixpoint ref_pairs (ps : list (bytes * bytes)) : bytes :=
  match ps with
  | [] => []
  | (k, v) :: r => be 2 (len k) ++ k ++ be 2 (len v) ++ v ++ ref_pairs r
  end.
Definition ref_rdispatch (status : Z) (ps : list (bytes * bytes)) (rest : bytes) : bytes :=
  be 1 status ++ be 2 (Z.of_nat (length ps)) ++ ref_pairs ps ++ rest.

(* ---- the byte stream of a connection ------------------------------------------------------------
   An independent reader of the connection's byte stream: read a 4-byte size, then that many bytes, repeat; stops at
   the first incomplete frame and returns the frames read (each with its size prefix) and the unread tail.
   fuel: one unit per frame (a frame has at least its 4 size bytes, so length s + 1 always suffices). *)
Fixpoint split_stream (fuel : nat) (s : bytes) : list bytes * bytes :=
  match fuel with
  | O => ([], s)
  | S k =>
      match parse_u 4 s with
      | None => ([], s)
      | Some (sz, r) =>
          if len r <? sz then ([], s)
          else let '(fs, rest) := split_stream k (drop sz r) in ((take 4 s ++ take sz r) :: fs, rest)
      end
  end.

Definition T_ping : Z := 65.
(* what a thriftmux client may put on the wire: Tdispatch with a decodable body, an empty Tping, a Tdiscarded on tag 0 *)
Definition client_frame_ok (f : bytes) : bool :=
  match parse_frame f with
  | Some (t, tag, body) =>
      if t =? T_dispatch then match parse_tdispatch body with Some _ => true | None => false end
      else if t =? T_ping then match body with [] => true | _ => false end
      else if t =? T_discarded then (tag =? 0) && match parse_tdiscarded body with Some _ => true | None => false end
      else false
  | None => false
  end.

Fixpoint is_prefix (a b : bytes) : bool :=
  match a, b with
  | [], _ => true
  | x :: a', y :: b' => (x =? y) && is_prefix a' b'
  | _ :: _, [] => false
  end.

(* writes: the buffers the client handed to the socket, in call order; stream: the bytes that reached the peer.
   The reader must recover exactly the written buffers, each a well-formed client frame; only the last buffers may be
   missing or cut (a write that was interrupted, or that was made after the peer had closed): the first `must` buffers -
   those whose write call returned normally while the peer was still there - have to be present completely. *)
Definition stream_ok (writes : list bytes) (stream : bytes) (must : nat) : bool :=
  let '(fs, rest) := split_stream (S (length stream)) stream in
  list_eqb zlist_eqb fs (firstn (length fs) writes)
  && forallb client_frame_ok fs
  && forallb client_frame_ok writes
  && is_prefix rest (concat (skipn (length fs) writes))
  && Nat.leb must (length fs).

(* ---- correspondence cases (generated by harness/props/c13.py) --------------------------------- *)
Definition obytes_eqb : option bytes -> option bytes -> bool := option_eqb zlist_eqb.

Inductive case :=
| CHeader (tag mtype data_len : Z) (expect : option bytes)
| CReadHeader (s : bytes) (expect : option (Z * Z))
| CDispatch (tag : Z) (props headers : list entry) (payload : bytes) (expect : option bytes)
| CDiscard (which : Z) (reason : text) (expect : option bytes)
| CRdispatch (s : bytes) (expect : option (Z * bytes))
| CStream (writes : list bytes) (stream : bytes) (must : nat).

Definition check_case (c : case) : bool :=
  match c with
  | CHeader tag mtype dl e => obytes_eqb (build_header tag mtype dl) e
  | CReadHeader s e =>
      option_eqb (pair_eqb Z.eqb Z.eqb)
        (match read_header s with Some (t, g, _) => Some (t, g) | None => None end) e
  | CDispatch tag props headers payload e =>
      obytes_eqb (tdispatch_frame tag props headers payload) e
  | CDiscard which reason e => obytes_eqb (tdiscarded_frame which reason) e
  | CRdispatch s e => option_eqb (pair_eqb Z.eqb zlist_eqb) (unmarshal_rdispatch_prefix s) e
  | CStream ws st c => stream_ok ws st c
  end.

(* what the model computes, for the replay file *)
Definition explain_case (c : case) : option bytes * option (Z * Z) * option (Z * bytes) :=
  match c with
  | CHeader tag mtype dl _ => (build_header tag mtype dl, None, None)
  | CReadHeader s _ => (None, match read_header s with Some (t, g, _) => Some (t, g) | None => None end, None)
  | CDispatch tag props headers payload _ => (tdispatch_frame tag props headers payload, None, None)
  | CDiscard which reason _ => (tdiscarded_frame which reason, None, None)
  | CRdispatch s _ => (None, None, unmarshal_rdispatch_prefix s)
  | CStream ws st _ => (Some (snd (split_stream (S (length st)) st)), None, None)
  end.
