(* RefCountedSink (C16): transcription of scales/sink.py RefCountedSink.Open / Close / AsyncProcessRequest.

     def Open(self):                              def Close(self):
       with self._open_lock:                        with self._open_lock:
         self._ref_count += 1                         if self._ref_count == 0: return
         if self._ref_count == 1:                     self._ref_count -= 1
           self._open_ar = self.next_sink.Open()      if self._ref_count == 0:
       return self._open_ar                             self._open_ar = None
                                                        self.next_sink.Close()

   Neither method yields (the underlying Open() returns its AsyncResult without waiting), so a history
   of calls by several holders is a sequence.  The code does not know who calls: the holder named in a
   label is used only by the specification side (hstep / wellbehaved below).
   The environment (the underlying sink) names the AsyncResult returned by its k-th Open() "k". *)
From Scales Require Import Model.Base.
Local Open Scope Z_scope.

Record rst := mkR {
  cnt : Z;              (* _ref_count *)
  ar : option Z;        (* _open_ar: name of the underlying open result, None = Python None *)
  nopen : Z             (* environment: how many times the underlying Open() has been called *)
}.

Definition rinit : rst := mkR 0 None 0.

Inductive rlabel :=
| ROpen (h : Z)         (* holder h calls Open()  *)
| RClose (h : Z)        (* holder h calls Close() *)
| RReq (c : Z)          (* AsyncProcessRequest of request c *)
| REnv (state : Z).     (* environment: the underlying sink now reports this ChannelState (4 = Closed: it faulted or
                           was closed); Open/Close do not look at it: holders that close after a fault are still
                           counted, the last one still closes the underlying sink, the next first Open re-opens it *)

Inductive robs :=
| UOpen (a : Z)         (* underlying Open() called; it returned result a *)
| UClose                (* underlying Close() called *)
| URet (a : option Z)   (* what RefCountedSink.Open returned *)
| UForward (c : Z).     (* underlying AsyncProcessRequest called with request c *)

Definition rstep (s : rst) (l : rlabel) : rst * list robs :=
  match l with
  | ROpen _ =>
      let c := cnt s + 1 in
      if c =? 1 then (mkR c (Some (nopen s)) (nopen s + 1), [UOpen (nopen s); URet (Some (nopen s))])
      else (mkR c (ar s) (nopen s), [URet (ar s)])
  | RClose _ =>
      if cnt s =? 0 then (s, [])
      else
        let c := cnt s - 1 in
        if c =? 0 then (mkR c None (nopen s), [UClose]) else (mkR c (ar s) (nopen s), [])
  | RReq c => (s, [UForward c])
  | REnv _ => (s, [])
  end.

Fixpoint rrun (s : rst) (ls : list rlabel) : rst * list (list robs) :=
  match ls with
  | [] => (s, [])
  | l :: r => let '(s1, o) := rstep s l in let '(s2, os) := rrun s1 r in (s2, o :: os)
  end.

(* ---- specification side: who holds the sink ---------------------------------------------------- *)
Fixpoint remove1 (h : Z) (l : list Z) : list Z :=
  match l with
  | [] => []
  | x :: r => if x =? h then r else x :: remove1 h r
  end.

(* the multiset of holders: an Open adds the caller, a Close removes one occurrence of the caller *)
Definition hstep (held : list Z) (l : rlabel) : list Z :=
  match l with
  | ROpen h => h :: held
  | RClose h => remove1 h held
  | RReq _ => held
  | REnv _ => held
  end.

Definition hrun (held : list Z) (ls : list rlabel) : list Z := fold_left hstep ls held.

(* holders only close what they opened, except for surplus closes when nobody holds the sink *)
Fixpoint wellbehaved (held : list Z) (ls : list rlabel) : Prop :=
  match ls with
  | [] => True
  | l :: r =>
      match l with RClose h => In h held \/ held = [] | _ => True end /\ wellbehaved (hstep held l) r
  end.

Definition count_uopen (os : list (list robs)) : Z :=
  Z.of_nat (length (filter (fun o => match o with UOpen _ => true | _ => false end) (concat os))).
Definition count_uclose (os : list (list robs)) : Z :=
  Z.of_nat (length (filter (fun o => match o with UClose => true | _ => false end) (concat os))).

(* ---- comparison with the implementation ------------------------------------------------------- *)
Definition robs_eqb (a b : robs) : bool :=
  match a, b with
  | UOpen x, UOpen y => x =? y
  | UClose, UClose => true
  | URet x, URet y => option_eqb Z.eqb x y
  | UForward x, UForward y => x =? y
  | _, _ => false
  end.

Definition rcheck (ls : list rlabel) (expected : list (list robs)) : bool :=
  list_eqb (list_eqb robs_eqb) (snd (rrun rinit ls)) expected.
