(* Model of scales/varz.py: Source, VarzReceiver (VARZ_DATA), _SampleSet, VarzMetric dispatch,
   VarzAggregator.Aggregate / CalculatePercentile / _Downsample, and of the varz calls made by
   scales/dispatch.py (MessageDispatcher._DispatchMethod, _AsyncResponseSink.AsyncProcessResponse).

   Transcription rules.
   * A Source is the tuple of its four fields; VARZ_DATA is an insertion-ordered association list
     metric -> (source -> cell), exactly what a python dict keyed by objects whose __eq__/__hash__ are
     by fields is (Source.__eq__, varz.py:48; before commit c0a7112 only __hash__ existed).
   * Numbers are exact rationals (python ints, and floats through float.as_integer_ratio).  Float
     *decisions* of the code (int(len * (1.0/count)), len/target, i % skip == 0) are modelled with an
     explicit round-to-nearest-even binary64 rounding [to_float]; float *outputs* (percentiles, means)
     are exact rationals here and compared with the implementation within 1e-9 (DESIGN.md 4.3).
   * The environment (random.random() inside _SampleSet.Sample, LOW_RESOLUTION_TIME_SOURCE.now) is part
     of the labels: [Sample .. rnd], [Clock t].
   * Python exceptions are explicit outcomes (ErrType, ErrAttr, RErr ...). *)
From Coq Require Import QArith Qround Qabs Sorting.Mergesort Orders.
From Scales Require Import Model.Base.
Local Open Scope Z_scope.

(* ---- sources and aggregation keys ----------------------------------------------------------- *)
Definition source := (option Z * option Z * option Z * option Z)%type.   (* method, service, endpoint, client_id *)
Definition oz_eqb : option Z -> option Z -> bool := option_eqb Z.eqb.
Definition src_eqb (a b : source) : bool :=
  match a, b with
  | (a1, a2, a3, a4), (b1, b2, b3, b4) => oz_eqb a1 b1 && oz_eqb a2 b2 && oz_eqb a3 b3 && oz_eqb a4 b4
  end.
Definition s_method (s : source) : option Z := match s with (m, _, _, _) => m end.
Definition s_service (s : source) : option Z := match s with (_, v, _, _) => v end.
Definition s_endpoint (s : source) : option Z := match s with (_, _, e, _) => e end.
Definition s_client (s : source) : option Z := match s with (_, _, _, c) => c end.

Definition key := list (option Z).
Definition key_eqb : key -> key -> bool := list_eqb oz_eqb.
(* DefaultKeySelector, varz.py:233 *)
Definition default_key_selector (s : source) : key := [s_service s; s_client s].

(* ---- insertion-ordered dictionaries --------------------------------------------------------- *)
Section Assoc.
  Context {K V : Type} (eqb : K -> K -> bool).
  Fixpoint alookup (k : K) (l : list (K * V)) : option V :=
    match l with
    | [] => None
    | (k', v) :: r => if eqb k k' then Some v else alookup k r
    end.
  (* d[k] = v : replaces the value in place (the first key object is kept), else appends *)
  Fixpoint aset (k : K) (v : V) (l : list (K * V)) : list (K * V) :=
    match l with
    | [] => [(k, v)]
    | (k', v') :: r => if eqb k k' then (k', v) :: r else (k', v') :: aset k v r
    end.
  (* d.pop(k, None) *)
  Fixpoint aremove (k : K) (l : list (K * V)) : list (K * V) :=
    match l with
    | [] => []
    | (k', v') :: r => if eqb k k' then r else (k', v') :: aremove k r
    end.
End Assoc.

(* ---- cells ---------------------------------------------------------------------------------- *)
(* _SampleSet: data (deque, oldest first), i (samples offered), last_update *)
Record reservoir := { r_data : list Q; r_i : Z; r_last : Z }.
Inductive cell := Num (q : Q) | Res (r : reservoir).
Definition series := list (source * cell).

Definition Qlt_bool (a b : Q) : bool := negb (Qle_bool b a).
(* _SampleSet.p = .1 : the binary64 nearest to 1/10 *)
Definition P_KEEP : Q := 3602879701896397 # 36028797018963968.

Definition zlen {A} (l : list A) : Z := Z.of_nat (length l).

(* deque(maxlen=cap).append *)
Definition push (cap : Z) (data : list Q) (v : Q) : list Q :=
  let d := data ++ [v] in if cap <? zlen d then tl d else d.

Definition fresh_reservoir (now : Z) : reservoir := {| r_data := []; r_i := 0; r_last := now |}.

(* _SampleSet.Sample (varz.py:190); None = the recorded random draw is not admissible here *)
Definition sample (cap now : Z) (r : reservoir) (v : Q) (rnd : option Q) : option reservoir :=
  if r_i r <? cap then
    match rnd with
    | None => Some {| r_data := push cap (r_data r) v; r_i := r_i r + 1; r_last := now |}
    | Some _ => None
    end
  else
    match rnd with
    | Some j =>
        if Qle_bool 0 j && Qlt_bool j 1 then
          if Qlt_bool j P_KEEP
          then Some {| r_data := push cap (r_data r) v; r_i := r_i r + 1; r_last := now |}
          else Some {| r_data := r_data r; r_i := r_i r + 1; r_last := r_last r |}
        else None
    | None => None
    end.

(* ---- labels and the receiver ---------------------------------------------------------------- *)
Inductive label :=
| Inc (m : Z) (s : source) (a : Q)                       (* VarzReceiver.IncrementVarz *)
| SetV (m : Z) (s : source) (v : Q)                      (* VarzReceiver.SetVarz *)
| Sample (m : Z) (s : source) (v : Q) (rnd : option Q)   (* VarzReceiver.RecordPercentileSample *)
| Clock (t : Z).                                         (* LOW_RESOLUTION_TIME_SOURCE.now := t *)

Inductive outcome := OK | ErrType | ErrAttr | BadRnd.

Definition label_metric (l : label) : option Z :=
  match l with Inc m _ _ | SetV m _ _ | Sample m _ _ _ => Some m | Clock _ => None end.
Definition label_source (l : label) : option source :=
  match l with Inc _ s _ | SetV _ s _ | Sample _ s _ _ => Some s | Clock _ => None end.

Definition cur_cell (s : source) (srcs : series) : cell :=      (* defaultdict(int) *)
  match alookup src_eqb s srcs with Some c => c | None => Num 0 end.

(* the effect of one receiver call on VARZ_DATA[metric] *)
Definition series_step (cap now : Z) (l : label) (srcs : series) : series * outcome :=
  match l with
  | Inc _ s a =>
      match cur_cell s srcs with
      | Num q => (aset src_eqb s (Num (Qred (q + a))) srcs, OK)
      | Res _ => (srcs, ErrType)                          (* _SampleSet + int *)
      end
  | SetV _ s v => (aset src_eqb s (Num v) srcs, OK)
  | Sample _ s v rnd =>
      match (match cur_cell s srcs with
             | Num q => if Qeq_bool q 0 then Some (fresh_reservoir now) else None
             | Res r => Some r
             end) with
      | None => (srcs, ErrAttr)                           (* number.Sample *)
      | Some r =>
          match sample cap now r v rnd with
          | Some r' => (aset src_eqb s (Res r') srcs, OK)
          | None => (srcs, BadRnd)
          end
      end
  | Clock _ => (srcs, OK)
  end.

Record state := { st_data : list (Z * series); st_now : Z }.
Definition init_state : state := {| st_data := []; st_now := 0 |}.

Definition get_series (st : state) (m : Z) : series :=
  match alookup Z.eqb m (st_data st) with Some l => l | None => [] end.

Definition step (cap : Z) (st : state) (l : label) : state * outcome :=
  match label_metric l with
  | None => match l with
            | Clock t => ({| st_data := st_data st; st_now := t |}, OK)
            | _ => (st, OK)
            end
  | Some m =>
      match series_step cap (st_now st) l (get_series st m) with
      | (srcs', OK) => ({| st_data := aset Z.eqb m srcs' (st_data st); st_now := st_now st |}, OK)
      | (_, o) => (st, o)
      end
  end.

Fixpoint exec (cap : Z) (st : state) (ls : list label) : state :=
  match ls with
  | [] => st
  | l :: r => exec cap (fst (step cap st l)) r
  end.

(* ---- VarzType and VarzMetric.__init__ ------------------------------------------------------- *)
Definition T_Gauge := 1. Definition T_Rate := 2. Definition T_AggregateTimer := 3.
Definition T_Counter := 4. Definition T_AverageTimer := 5. Definition T_AverageRate := 6.

Inductive kind := KInc | KSet | KSample.
Definition kind_of_type (ty : Z) : kind :=
  if ty =? T_Gauge then KSet
  else if (ty =? T_AverageTimer) || (ty =? T_AverageRate) then KSample
  else KInc.
(* metric(source, arg): the receiver call a VarzMetric of type ty makes *)
Definition varz_call (ty m : Z) (s : source) (arg : Q) (rnd : option Q) : label :=
  match kind_of_type ty with
  | KSet => SetV m s arg
  | KSample => Sample m s arg rnd
  | KInc => Inc m s arg
  end.
Definition label_kind (l : label) : option kind :=
  match l with Inc _ _ _ => Some KInc | SetV _ _ _ => Some KSet | Sample _ _ _ _ => Some KSample | Clock _ => None end.
Definition kind_eqb (a b : kind) : bool :=
  match a, b with KInc, KInc | KSet, KSet | KSample, KSample => true | _, _ => false end.

(* ---- binary64 rounding of positive rationals (normal range) ----------------------------------- *)
Definition round_pos (n d : Z) : Q :=
  let e0 := Z.log2 n - Z.log2 d - 52 in
  let scaled (e : Z) := if 0 <=? e then (n, d * 2 ^ e) else (n * 2 ^ (- e), d) in
  let m0 := fst (scaled e0) / snd (scaled e0) in
  let e := if m0 <? 2 ^ 52 then e0 - 1 else if 2 ^ 53 <=? m0 then e0 + 1 else e0 in
  let a := fst (scaled e) in let b := snd (scaled e) in
  let m := a / b in let r := a mod b in
  let m' := if (b <? 2 * r) || ((b =? 2 * r) && Z.odd m) then m + 1 else m in
  if 0 <=? e then inject_Z (m' * 2 ^ e) else Qred (m' # Z.to_pos (2 ^ (- e))).

Definition to_float (q : Q) : Q :=
  let q := Qred q in
  if (Zpos (Qden q) =? 1) && (Z.abs (Qnum q) <=? 2 ^ 53) then q        (* small integers are exact *)
  else if Qnum q =? 0 then 0%Q
  else if 0 <? Qnum q then round_pos (Qnum q) (Zpos (Qden q))
  else Qopp (round_pos (- Qnum q) (Zpos (Qden q))).

Definition fmul (a b : Q) : Q := to_float (a * b).
Definition fdiv (a b : Q) : Q := to_float (a / b).

(* ---- CalculatePercentile (varz.py:252) ------------------------------------------------------ *)
(* values[i] with python's negative indexing; None = IndexError *)
Definition py_index (vs : list Q) (i : Z) : option Q :=
  let n := zlen vs in
  if (0 <=? i) && (i <? n) then Some (nth (Z.to_nat i) vs 0%Q)
  else if (- n <=? i) && (i <? 0) then Some (nth (Z.to_nat (n + i)) vs 0%Q)
  else None.

Definition percentile (vs : list Q) (pct : Q) : option Q :=
  match vs with
  | [] => Some 0%Q
  | _ =>
      let k := (inject_Z (zlen vs - 1) * pct)%Q in
      let f := Qfloor k in
      let c := Qceiling k in
      if f =? c then py_index vs f
      else match py_index vs f, py_index vs c with
           | Some d0, Some d1 => Some (d0 * (inject_Z c - k) + d1 * (k - inject_Z f))%Q
           | _, _ => None
           end
  end.

(* ---- sorting -------------------------------------------------------------------------------- *)
Module QOrder <: TotalLeBool.
  Definition t := Q.
  Definition leb (x y : Q) := Qle_bool x y.
  Theorem leb_total : forall a1 a2, leb a1 a2 = true \/ leb a2 a1 = true.
  Proof.
    intros a b. unfold leb. rewrite !Qle_bool_iff.
    destruct (Qlt_le_dec a b) as [H|H]; [left; apply Qlt_le_weak; exact H|right; exact H].
  Qed.
End QOrder.
Module QSort := Sort QOrder.
Definition sortQ : list Q -> list Q := QSort.sort.

(* ---- _Downsample (varz.py:266) -------------------------------------------------------------- *)
(* int(len(v.data) * (1.0 / count)) *)
Definition target_size (n count : Z) : Z := Qfloor (fmul (inject_Z n) (fdiv 1 (inject_Z count))).

(* i % skip == 0 for a float skip: fmod is exact, so true iff i / skip is an integer *)
Definition is_multiple (i : Z) (skip : Q) : bool := (Zpos (Qden (Qred (inject_Z i / skip))) =? 1).

Fixpoint pick (skip : Q) (i : Z) (l : list Q) : list Q :=
  match l with
  | [] => []
  | x :: r => if is_multiple i skip then x :: pick skip (i + 1) r else pick skip (i + 1) r
  end.

Definition downsample (lst : list Q) (target : Z) : list Q :=
  if target =? 0 then []
  else if (zlen lst <? 3) || (zlen lst <=? target) then lst
  else
    let skip := fdiv (inject_Z (zlen lst)) (inject_Z target) in
    let s := sortQ lst in
    pick skip 0 (firstn (length s - 2) s) ++ [last s 0%Q].

(* ---- Aggregate (varz.py:281) ---------------------------------------------------------------- *)
Inductive err := ETypeError | EAttributeError | EZeroDivision | EIndexError.
Inductive res (A : Type) := ROk (a : A) | RErr (e : err).
Arguments ROk {A} a. Arguments RErr {A} e.
Definition rbind {A B} (r : res A) (f : A -> res B) : res B :=
  match r with ROk a => f a | RErr e => RErr e end.
Fixpoint rmap {A B} (f : A -> res B) (l : list A) : res (list B) :=
  match l with
  | [] => ROk []
  | x :: r => rbind (f x) (fun y => rbind (rmap f r) (fun ys => ROk (y :: ys)))
  end.

Definition MAX_AGG_AGE := 300.

Inductive work := WNum (q : Q) | WList (l : list reservoir).
Record aggst := { a_work : work; a_count : Z }.

(* _Agg() created for a key whose first data is c *)
Definition new_agg (c : cell) : aggst :=
  {| a_work := match c with Res _ => WList [] | Num _ => WNum 0 end; a_count := 0 |}.

Definition agg_add (now : Z) (a : aggst) (c : cell) : res aggst :=
  match c with
  | Res r =>
      if now - r_last r <? MAX_AGG_AGE then
        match a_work a with
        | WList l => ROk {| a_work := WList (l ++ [r]); a_count := a_count a + 1 |}
        | WNum _ => RErr EAttributeError                    (* float.append *)
        end
      else ROk a
  | Num q =>
      match a_work a with
      | WNum w => ROk {| a_work := WNum (Qred (w + q)); a_count := a_count a + 1 |}
      | WList _ => RErr ETypeError                          (* list += number *)
      end
  end.

Fixpoint agg_sources (sel : source -> key) (now : Z) (srcs : series) (acc : list (key * aggst))
  : res (list (key * aggst)) :=
  match srcs with
  | [] => ROk acc
  | (s, c) :: r =>
      let k := sel s in
      let a0 := match alookup key_eqb k acc with Some a => a | None => new_agg c end in
      match agg_add now a0 c with
      | ROk a => agg_sources sel now r (aset key_eqb k a acc)
      | RErr e => RErr e
      end
  end.

Inductive total :=
| TNum (q : Q)                       (* exact number *)
| TAvg (q : Q)                       (* float(work) / count *)
| TPcts (l : list Q) (scale : Q)     (* [mean, percentiles...]; scale = max |value| (comparison tolerance) *)
| TWork (n : Z).                     (* a list of n _SampleSet objects stored as total *)

Definition is_sum_type (ty : Z) : bool :=
  (ty =? T_AggregateTimer) || (ty =? T_Counter) || (ty =? T_Gauge) || (ty =? T_Rate).
Definition is_avg_type (ty : Z) : bool := (ty =? T_AverageTimer) || (ty =? T_AverageRate).

Definition sumQ (l : list Q) : Q := fold_left Qplus l 0%Q.
Definition maxabs (l : list Q) : Q := fold_left (fun m x => if Qle_bool (Qabs x) m then m else Qabs x) l 0%Q.
Definition mean (vs : list Q) : Q :=
  match vs with [] => 0%Q | _ => Qred (sumQ vs / inject_Z (zlen vs)) end.

Definition pct_list (pcts : list Q) (vs : list Q) : res (list Q) :=
  rmap (fun p => match percentile vs p with Some x => ROk x | None => RErr EIndexError end) pcts.

Definition merged_values (l : list reservoir) (count : Z) : list Q :=
  sortQ (concat (map (fun r => downsample (r_data r) (target_size (zlen (r_data r)) count)) l)).

Definition finalize (pcts : list Q) (ty : Z) (a : aggst) : res (total * Z) :=
  if is_sum_type ty then
    ROk (match a_work a with WNum q => TNum q | WList l => TWork (zlen l) end, a_count a)
  else if is_avg_type ty then
    if 0 <? a_count a then
      match a_work a with
      | WList l =>
          let vs := merged_values l (a_count a) in
          rbind (pct_list pcts vs) (fun ps => ROk (TPcts (mean vs :: ps) (maxabs vs), a_count a))
      | WNum _ => RErr ETypeError                           (* iterating a float *)
      end
    else rbind (pct_list pcts []) (fun ps => ROk (TPcts (0%Q :: ps) 0%Q, a_count a))
  else
    match a_work a with
    | WNum q => if a_count a =? 0 then RErr EZeroDivision else ROk (TAvg (q / inject_Z (a_count a)), a_count a)
    | WList _ => RErr ETypeError                            (* float(list) *)
    end.

Definition agg_metric (sel : source -> key) (now : Z) (pcts : list Q) (ty : Z) (srcs : series)
  : res (list (key * (total * Z))) :=
  rbind (agg_sources sel now srcs [])
        (rmap (fun ka => rbind (finalize pcts ty (snd ka)) (fun t => ROk (fst ka, t)))).

Fixpoint aggregate (sel : source -> key) (now : Z) (pcts : list Q) (types : list (Z * Z))
         (data : list (Z * series)) : res (list (Z * list (key * (total * Z)))) :=
  match data with
  | [] => ROk []
  | (m, srcs) :: r =>
      match alookup Z.eqb m types with
      | None => aggregate sel now pcts types r               (* metric not in metrics: continue *)
      | Some ty =>
          rbind (agg_metric sel now pcts ty srcs)
                (fun x => rbind (aggregate sel now pcts types r) (fun xs => ROk ((m, x) :: xs)))
      end
  end.

(* Aggregate is not atomic: it calls gevent.sleep(0) once per registered metric, after which it reads a
   snapshot of that metric's sources; the metric names are a snapshot taken at loop start (varz.py:298,304-305).
   [sched] lists the receiver calls other greenlets make inside the 1st, 2nd, ... yield.  Returns the
   state afterwards (only the batches of the yields that happened are applied). *)
Fixpoint aggregate_il (cap : Z) (sel : source -> key) (now : Z) (pcts : list Q) (types : list (Z * Z))
         (names : list Z) (st : state) (sched : list (list label))
  : state * res (list (Z * list (key * (total * Z)))) :=
  match names with
  | [] => (st, ROk [])
  | m :: r =>
      match alookup Z.eqb m types with
      | None => aggregate_il cap sel now pcts types r st sched
      | Some ty =>
          let st' := match sched with b :: _ => exec cap st b | [] => st end in
          match agg_metric sel now pcts ty (get_series st' m) with
          | RErr e => (st', RErr e)
          | ROk x =>
              let (st'', rest) := aggregate_il cap sel now pcts types r st' (tl sched) in
              (st'', rbind rest (fun xs => ROk ((m, x) :: xs)))
          end
      end
  end.

(* ---- the varz calls of the dispatcher (dispatch.py:208, 77-99) ------------------------------ *)
(* metric ids used for MessageDispatcher.Varz *)
Definition M_dispatch := 100. Definition M_success := 101. Definition M_exception := 102. Definition M_latency := 103.
(* _DispatchMethod: Source(method=method, service=self._name); dispatch_messages(source) *)
Definition dispatch_labels (service method : Z) : list label :=
  [Inc M_dispatch (Some method, Some service, None, None) 1].
(* AsyncProcessResponse: a fresh Source(method, service, endpoint) per reply *)
(* outcome 0: MethodReturnMessage without error; 1: with error; otherwise: not a MethodReturnMessage (InternalError) *)
Definition reply_labels (service method : Z) (endpoint : option Z) (latency : Q) (outcome : Z) (rnd : option Q)
  : list label :=
  let hs := (Some method, Some service, endpoint, None) in
  Sample M_latency hs latency rnd ::
  (if outcome =? 0 then [Inc M_success hs 1] else if outcome =? 1 then [Inc M_exception hs 1] else []).

(* ---- correspondence cases (generated by harness/props/c18.py) ------------------------------- *)
Record config := { c_cap : Z; c_types : list (Z * Z); c_pcts : list Q }.

Inductive op :=
| OpL (l : label)
| OpCall (ty m : Z) (s : source) (arg : Q) (rnd : option Q)     (* through a VarzMetric object of class ty *)
| OpDump
| OpAgg (sel : Z)
| OpAggIL (sel : Z) (sched : list (list label))   (* Aggregate with other greenlets' updates inside its yields *)
| OpInvalid (m : Z) (k : Z)                       (* a receiver call (0 inc, 1 set, 2 sample) with a non-Source: ValueError;
                                                     IncrementVarz / SetVarz evaluate VARZ_DATA[metric] first, which creates the metric *)
| OpPop (m : Z).                                  (* VARZ_DATA.pop(metric, None) *)

Definition selector (z : Z) : source -> key :=
  if z =? 0 then default_key_selector
  else if z =? 1 then (fun s => [s_service s])
  else if z =? 2 then (fun s => [s_method s; s_service s; s_endpoint s; s_client s])
  else if z =? 3 then (fun _ => [])
  else (fun s => [s_method s; s_endpoint s]).

Inductive ototal := ONum (q : Q) | OPcts (l : list Q) | OWork (n : Z).
Inductive obs :=
| ObStep (code n : Z)                                        (* 0 ok | 1 TypeError | 2 AttributeError ; len(VARZ_DATA[m]) *)
| ObDump (d : list (Z * series))
| ObAgg (r : list (Z * list (key * (ototal * Z))))
| ObAggErr (code : Z).

Inductive mobs :=
| MStep (o : outcome) (n : Z)
| MInvalid (n : Z)                                           (* ValueError; number of series, -1: metric absent *)
| MDump (d : list (Z * series))
| MAgg (r : res (list (Z * list (key * (total * Z))))).

Definition op_label (o : op) : option label :=
  match o with
  | OpL l => Some l
  | OpCall ty m s arg rnd => Some (varz_call ty m s arg rnd)
  | _ => None
  end.

Fixpoint run_ops (cfg : config) (st : state) (ops : list op) : list mobs :=
  match ops with
  | [] => []
  | o :: r =>
      match op_label o with
      | Some l =>
          let (st', out) := step (c_cap cfg) st l in
          MStep out (match label_metric l with Some m => zlen (get_series st' m) | None => 0 end)
            :: run_ops cfg st' r
      | None =>
          match o with
          | OpAgg z => MAgg (aggregate (selector z) (st_now st) (c_pcts cfg) (c_types cfg) (st_data st)) :: run_ops cfg st r
          | OpAggIL z sched =>
              let (st', res) := aggregate_il (c_cap cfg) (selector z) (st_now st) (c_pcts cfg) (c_types cfg)
                                             (map fst (st_data st)) st sched in
              MAgg res :: run_ops cfg st' r
          | OpInvalid m k =>
              let st' := if negb (k =? 2) then
                           match alookup Z.eqb m (st_data st) with
                           | Some _ => st
                           | None => {| st_data := aset Z.eqb m [] (st_data st); st_now := st_now st |}
                           end
                         else st in
              MInvalid (match alookup Z.eqb m (st_data st') with Some l => zlen l | None => -1 end) :: run_ops cfg st' r
          | OpPop m =>
              let st' := {| st_data := aremove Z.eqb m (st_data st); st_now := st_now st |} in
              MStep OK 0 :: run_ops cfg st' r
          | _ => MDump (st_data st) :: run_ops cfg st r
          end
      end
  end.

Fixpoint list_match {A B : Type} (f : A -> B -> bool) (a : list A) (b : list B) : bool :=
  match a, b with
  | [], [] => true
  | x :: a', y :: b' => f x y && list_match f a' b'
  | _, _ => false
  end.

Definition EPS : Q := 1 # 1000000000.
Definition close (a b scale : Q) : bool := Qle_bool (Qabs (a - b)) (EPS * scale).

Definition qlist_eqb : list Q -> list Q -> bool := list_eqb Qeq_bool.
Definition reservoir_eqb (a b : reservoir) : bool :=
  qlist_eqb (r_data a) (r_data b) && (r_i a =? r_i b) && (r_last a =? r_last b).
Definition cell_eqb (a b : cell) : bool :=
  match a, b with
  | Num x, Num y => Qeq_bool x y
  | Res x, Res y => reservoir_eqb x y
  | _, _ => false
  end.
Definition series_eqb : series -> series -> bool := list_eqb (pair_eqb src_eqb cell_eqb).
Definition data_eqb : list (Z * series) -> list (Z * series) -> bool := list_eqb (pair_eqb Z.eqb series_eqb).

Definition total_match (t : total) (o : ototal) : bool :=
  match t, o with
  | TNum q, ONum x => Qeq_bool q x
  | TAvg q, ONum x => close q x (Qabs q)
  | TPcts l sc, OPcts xs => list_match (fun a b => close a b sc) l xs
  | TWork n, OWork k => n =? k
  | _, _ => false
  end.
Definition agg_match : list (Z * list (key * (total * Z))) -> list (Z * list (key * (ototal * Z))) -> bool :=
  list_match (fun a b => (fst a =? fst b) &&
     list_match (fun x y => key_eqb (fst x) (fst y) && total_match (fst (snd x)) (fst (snd y)) && (snd (snd x) =? snd (snd y)))
              (snd a) (snd b)).

Definition outcome_code (o : outcome) : Z :=
  match o with OK => 0 | ErrType => 1 | ErrAttr => 2 | BadRnd => 9 end.
Definition err_code (e : err) : Z :=
  match e with ETypeError => 1 | EAttributeError => 2 | EZeroDivision => 3 | EIndexError => 4 end.

Definition obs_match (m : mobs) (o : obs) : bool :=
  match m, o with
  | MStep out n, ObStep code k => (outcome_code out =? code) && (n =? k)
  | MInvalid n, ObStep code k => (code =? 5) && (n =? k)
  | MDump d, ObDump e => data_eqb d e
  | MAgg (ROk r), ObAgg x => agg_match r x
  | MAgg (RErr e), ObAggErr code => err_code e =? code
  | _, _ => false
  end.

(* what the dispatcher does to varz, as a sequence of events: _DispatchMethod ran for a call
   (immediately when Open() had completed, else when it completes), a reply was processed *)
Inductive e2e_event :=
| EvDispatch (service method : Z)
| EvReply (service method : Z) (endpoint : option Z) (latency : Q) (outcome : Z) (rnd : option Q).
Definition e2e_labels (evs : list e2e_event) : list op :=
  concat (map (fun e : e2e_event =>
    map OpL (match e with
             | EvDispatch sv m => dispatch_labels sv m
             | EvReply sv m ep lat outcome rnd => reply_labels sv m ep lat outcome rnd
             end)) evs).

(* compact literals for the generated case files (-1 stands for python's None in a source field) *)
Definition oz (z : Z) : option Z := if z =? -1 then None else Some z.
Definition src (a b c d : Z) : source := (oz a, oz b, oz c, oz d).
Definition kz (l : list Z) : key := map oz l.
Definition qz (n d : Z) : Q := Qmake n (Z.to_pos d).
Definition qi (n : Z) : Q := inject_Z n.

Inductive case :=
| CRun (cfg : config) (ops : list op) (expected : list obs)
| CE2E (cfg : config) (calls : list e2e_event) (tail : list op) (expected : list obs)
      (* expected: observations of the tail ops (dump / aggregate) after the calls *)
| CPct (values : list Q) (ps : list Q) (expected : list (option Q))
| CDown (lst : list Q) (target : Z) (expected : list Q)
| CTarget (n count : Z) (expected : Z).

Definition pct_scale (vs : list Q) (p : Q) : Q :=
  if Qle_bool 0 p && Qle_bool p 1 then maxabs vs
  else (maxabs vs * (inject_Z (zlen vs) + 1) * (1 + Qabs p))%Q.

Definition check_case (c : case) : bool :=
  match c with
  | CRun cfg ops e => list_match obs_match (run_ops cfg init_state ops) e
  | CE2E cfg calls tail e =>
      let pre := e2e_labels calls in
      list_match obs_match (skipn (length pre) (run_ops cfg init_state (pre ++ tail))) e
      && forallb (fun m => match m with MStep OK _ => true | _ => false end)
                 (firstn (length pre) (run_ops cfg init_state (pre ++ tail)))
  | CPct vs ps e =>
      list_match (fun p x => match percentile vs p, x with
                           | Some a, Some b => close a b (pct_scale vs p)
                           | None, None => true
                           | _, _ => false
                           end) ps e
  | CDown lst t e => qlist_eqb (downsample lst t) e
  | CTarget n count e => target_size n count =? e
  end.

(* what the model computes where it differs from the implementation (index, model observation), for the replay file *)
Fixpoint mismatches (i : Z) (ms : list mobs) (os : list obs) : list (Z * option mobs * option obs) :=
  match ms, os with
  | [], [] => []
  | m :: ms', o :: os' => if obs_match m o then mismatches (i + 1) ms' os' else (i, Some m, Some o) :: mismatches (i + 1) ms' os'
  | m :: _, [] => [(i, Some m, None)]
  | [], o :: _ => [(i, None, Some o)]
  end.

Inductive explanation :=
| XRun (l : list (Z * option mobs * option obs))
| XPct (l : list (option Q))
| XDown (l : list Q)
| XTarget (z : Z).
Definition explain_case (c : case) : explanation :=
  match c with
  | CRun cfg ops e => XRun (firstn 2 (mismatches 0 (run_ops cfg init_state ops) e))
  | CE2E cfg calls tail e =>
      let pre := e2e_labels calls in
      XRun (firstn 2 (mismatches 0 (skipn (length pre) (run_ops cfg init_state (pre ++ tail))) e)
            ++ firstn 1 (mismatches 0 (filter (fun m => match m with MStep OK _ => false | _ => true end)
                                              (firstn (length pre) (run_ops cfg init_state (pre ++ tail)))) []))
  | CPct vs ps _ => XPct (map (percentile vs) ps)
  | CDown lst t _ => XDown (downsample lst t)
  | CTarget n count _ => XTarget (target_size n count)
  end.
