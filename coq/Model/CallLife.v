(* Life of one method call above the balancer (C01): transcription of
     scales/dispatch.py  MessageDispatcher.DispatchMethodCall/_DispatchMethod/StaticDispatchMessage, _AsyncResponseSink
     scales/sink.py      ClientTimeoutSink (AsyncProcessRequest, _TimeoutHelper, AsyncProcessResponse),
                         ClientMessageSinkStack.AsyncProcessResponse (pop one frame, run its handler)
   Everything below the timeout sink (serializer, balancer, resurrector, pool, transports, servers, server
   set) is the ENVIRONMENT: it may push frames and post any message into the call's sink stack at any time,
   any number of times.  Time is in integer ticks; the timer queue rounds deadlines up to its resolution r. *)
From Scales Require Import Model.Base.
Local Open Scope Z_scope.

Inductive frame := FResp | FTimeout | FLower.
Inductive mkind := MValue | MTimeout | MError.
Inductive timer := TNone | TArmed (dl : Z) | TCancelled | TFired.
Inductive phase := NotIssued | WaitOpen | Live.

Record st := {
  now : Z;
  ph : phase;
  t0 : Z;                      (* time the call was issued *)
  tmo : Z;                     (* its timeout T *)
  stack : list frame;          (* sink stack, top first *)
  tmr : timer;
  waited : bool;               (* issued while the client was still opening: DispatchMethodCall bounds the wait with *)
  otmr : timer;                (* its own timer (outer) and hands the caller a result guarded by ready() *)
  done : list (Z * mkind);     (* completions delivered to the caller's result, newest first *)
}.

Definition init (t : Z) : st :=
  {| now := t; ph := NotIssued; t0 := 0; tmo := 0; stack := []; tmr := TNone; waited := false; otmr := TNone; done := [] |}.

Definition ceil_r (r d : Z) : Z := ((d + r - 1) / r) * r.

Definition deadline (s : st) : Z := t0 s + tmo s.

Inductive label :=
| Issue (T : Z) (opened : bool)   (* DispatchMethodCall; opened = the client's open result was ready *)
| OpenDone                        (* the open result completes: the chained _DispatchMethod runs *)
| Tick (t : Z)                    (* the clock moves to t *)
| Fire                            (* the timer queue runs the scheduled _TimeoutHelper *)
| OFire                           (* the timer queue runs DispatchMethodCall's on_timeout (call issued before open) *)
| Push                            (* some lower sink pushes a frame *)
| Unpush                          (* a lower sink takes its own frame off again (SinkStack.Pop without a message,
                                     e.g. the pool swapping its queuing sink for a real one) *)
| Pop (m : mkind).                (* one ClientMessageSinkStack.AsyncProcessResponse step carrying m *)

(* _DispatchMethod + ClientTimeoutSink.AsyncProcessRequest at the current time *)
Definition enter (r : Z) (s : st) : st :=
  let d := deadline s in
  if d <? now s then
    (* already expired: _TimeoutHelper(None, sink_stack) posts TimeoutError; no timer, no frame pushed *)
    {| now := now s; ph := Live; t0 := t0 s; tmo := tmo s; stack := [FResp]; tmr := TNone; waited := waited s; otmr := otmr s; done := done s |}
  else
    {| now := now s; ph := Live; t0 := t0 s; tmo := tmo s; stack := [FTimeout; FResp];
       tmr := TArmed (ceil_r r d); waited := waited s; otmr := otmr s; done := done s |}.

Definition set_stack (s : st) (k : list frame) : st :=
  {| now := now s; ph := ph s; t0 := t0 s; tmo := tmo s; stack := k; tmr := tmr s; waited := waited s; otmr := otmr s; done := done s |}.

(* a TimeoutError may only be posted once the deadline has been reached (timer, expired-on-entry path,
   or the serial transport's own timeout: all three compare against the same deadline) *)
Definition early (m : mkind) (s : st) : bool :=
  match m with MTimeout => now s <? deadline s | _ => false end.

Definition step (r : Z) (s : st) (l : label) : option st :=
  match l with
  | Issue T opened =>
      match ph s with
      | NotIssued =>
          if T <=? 0 then None else
          if opened then
            Some (enter r {| now := now s; ph := WaitOpen; t0 := now s; tmo := T; stack := []; tmr := TNone;
                             waited := false; otmr := TNone; done := [] |})
          else
            (* chained behind the open result; the wait is bounded by a timer at the call's deadline *)
            Some {| now := now s; ph := WaitOpen; t0 := now s; tmo := T; stack := []; tmr := TNone;
                    waited := true; otmr := TArmed (ceil_r r (now s + T)); done := [] |}
      | _ => None
      end
  | OpenDone =>
      match ph s with
      | WaitOpen =>
          (* on_open: the outer timer is cancelled (from here on the timeout sink enforces the deadline); a call
             that already timed out while waiting for Open() is not dispatched at all *)
          let s1 := {| now := now s; ph := ph s; t0 := t0 s; tmo := tmo s; stack := stack s; tmr := tmr s;
                       waited := waited s; otmr := match otmr s with TArmed _ => TCancelled | x => x end;
                       done := done s |} in
          match done s with
          | [] => Some (enter r s1)
          | _ => Some {| now := now s; ph := Live; t0 := t0 s; tmo := tmo s; stack := []; tmr := TNone;
                         waited := waited s; otmr := otmr s1; done := done s |}
          end
      | _ => None
      end
  | Tick t =>
      if t <? now s then None else
      Some {| now := t; ph := ph s; t0 := t0 s; tmo := tmo s; stack := stack s; tmr := tmr s; waited := waited s; otmr := otmr s; done := done s |}
  | Fire =>
      match tmr s with
      | TArmed dl =>
          if now s <? dl then None else
          Some {| now := now s; ph := ph s; t0 := t0 s; tmo := tmo s; stack := stack s; tmr := TFired;
                  waited := waited s; otmr := otmr s; done := done s |}
      | TCancelled =>
          (* the timer queue had already handed the action to its own greenlet when context() cancelled it (both at
             the rounded deadline): _TimeoutHelper still runs, and posts its TimeoutError like any other late arrival *)
          if now s <? ceil_r r (deadline s) then None else Some s
      | _ => None
      end
  | OFire =>
      match otmr s with
      | TArmed dl =>
          if now s <? dl then None else
          Some {| now := now s; ph := ph s; t0 := t0 s; tmo := tmo s; stack := stack s; tmr := tmr s;
                  waited := waited s; otmr := TFired;
                  done := match done s with [] => [(now s, MTimeout)] | d => d end |}
      | _ => None
      end
  | Push => match ph s with Live => Some (set_stack s (FLower :: stack s)) | _ => None end
  | Unpush => match ph s, stack s with Live, FLower :: k => Some (set_stack s k) | _, _ => None end
  | Pop m =>
      match ph s with
      | Live =>
          if early m s then None else
          match stack s with
          | [] => Some s                                   (* drained stack: nothing happens *)
          | FLower :: k => Some (set_stack s k)
          | FTimeout :: k =>                               (* context(): cancel the timer *)
              Some {| now := now s; ph := ph s; t0 := t0 s; tmo := tmo s; stack := k;
                      tmr := match tmr s with TArmed _ => TCancelled | x => x end;
                      waited := waited s; otmr := otmr s; done := done s |}
          | FResp :: k =>                                  (* _AsyncResponseSink: the single ar.set / set_exception *)
              if waited s then
                (* the inner result completes; on_done completes the caller's result unless it is already complete *)
                Some {| now := now s; ph := ph s; t0 := t0 s; tmo := tmo s; stack := k; tmr := tmr s; waited := true;
                        otmr := otmr s;
                        done := match done s with [] => [(now s, m)] | d => d end |}
              else
                Some {| now := now s; ph := ph s; t0 := t0 s; tmo := tmo s; stack := k; tmr := tmr s;
                        waited := false; otmr := otmr s; done := (now s, m) :: done s |}
          end
      | _ => None
      end
  end.

Fixpoint run (r : Z) (s : st) (ls : list label) : option st :=
  match ls with
  | [] => Some s
  | l :: ls' => match step r s l with Some s' => run r s' ls' | None => None end
  end.

(* A full drain: the handlers of all frames forward the message (nobody raises or swallows it). *)
Fixpoint drain (m : mkind) (n : nat) : list label :=
  match n with O => [] | S n' => Pop m :: drain m n' end.
Definition drain_all (s : st) (m : mkind) : list label := drain m (length (stack s)).

(* the timer is "due": Fire is enabled *)
Definition fire_enabled (s : st) : bool :=
  match tmr s with TArmed dl => dl <=? now s | _ => false end.
Definition ofire_enabled (s : st) : bool :=
  match otmr s with TArmed dl => dl <=? now s | _ => false end.

(* ---- correspondence: replay of the labels the implementation took for one call ---------------- *)
Definition mkind_eqb (a b : mkind) : bool :=
  match a, b with MValue, MValue | MTimeout, MTimeout | MError, MError => true | _, _ => false end.
Definition frame_eqb (a b : frame) : bool :=
  match a, b with FResp, FResp | FTimeout, FTimeout | FLower, FLower => true | _, _ => false end.

(* an observed step: the label plus what the implementation showed right after it:
   the class of the frame that was on top before a Pop (None for other labels) *)
Record ostep := { o_label : label; o_top : option frame }.

Fixpoint replay (r : Z) (s : st) (os : list ostep) : option st :=
  match os with
  | [] => Some s
  | o :: os' =>
      let top_ok := match o_label o, o_top o with
                    | Pop _, Some f => match stack s with f' :: _ => frame_eqb f f' | [] => false end
                    | Pop _, None => match stack s with [] => true | _ => false end
                    | _, _ => true
                    end in
      if negb top_ok then None else
      match step r s (o_label o) with Some s' => replay r s' os' | None => None end
  end.

Record case := {
  c_r : Z; c_start : Z; c_steps : list ostep;
  c_done : list (Z * mkind)            (* what the caller's result saw: (tick, kind), newest first *)
}.

Definition done_eqb (a b : list (Z * mkind)) : bool := list_eqb (pair_eqb Z.eqb mkind_eqb) a b.

Definition check_case (c : case) : bool :=
  match replay (c_r c) (init (c_start c)) (c_steps c) with
  | Some s => done_eqb (done s) (c_done c)
  | None => false
  end.

Definition explain_case (c : case) : option (list (Z * mkind) * list frame * timer * timer) :=
  match replay (c_r c) (init (c_start c)) (c_steps c) with
  | Some s => Some (done s, stack s, tmr s, otmr s)
  | None => None
  end.
