(* SingletonPoolSink (C16): transcription of scales/pool/singleton.py (Open, Close, state, _Get) and of
   scales/pool/base.py PoolSink.AsyncProcessRequest, as a label-driven small-step machine.

     def _Get(self):
       if not self.next_sink:                                   (branch "none")
         self.next_sink = self._sink_provider.CreateSink(self._properties)
         self.next_sink.on_faulted.Subscribe(self.__PropagateShutdown)
         self.next_sink.Open().wait()                           <- the only yield
         return self.next_sink
       elif self.next_sink.state == ChannelState.Idle:          (branch "idle")
         self.next_sink.Open().wait()                           <- the only yield
         return self.next_sink
       elif self.next_sink.is_closed:                           (branch "closed")
         self.next_sink.on_faulted.Unsubscribe(self.__PropagateShutdown)
         self.next_sink = None
         return self._Get()
       else:                                                    (branch "share")
         return self.next_sink

   The yield inside _Get is a separate step: a request (or the greenlet spawned by pool.Open(), which starts at its own `Start` label) that
   reaches Open().wait() on a sink whose open has not completed becomes a waiting task; `Resume t`
   lets exactly that greenlet continue (`return self.next_sink` reads the field at that moment), in any order
   the label sequence chooses, interleaved with any other label.  gevent wakes the waiters in FIFO
   order one after the other; that schedule is one of the label sequences.

   Environment contract of the underlying sinks (DESIGN.md section 10): a sink is created Idle; its
   Open() returns one pending result until the environment completes it (OpenDone); a failed open, a
   fault or Close() make it Closed for ever and complete the pending result; a Closed sink never
   reports Open again; an open sink may report Busy for a while (SetBusy); a fault sets the sink's on_faulted, to which the pool is subscribed exactly
   while the sink is its next_sink. *)
From Scales Require Import Model.Base Model.RefCount Model.Shared.
Local Open Scope nat_scope.

Inductive sstate := SIdle | SOpen | SBusy | SClosed.
Inductive kind := KReq | KOpen.

Record task := mkTask { t_id : nat; t_kind : kind; t_sink : nat }.   (* blocked in sinks[t_sink].Open().wait() *)

Record st := mkSt {
  next : option nat;        (* pool.next_sink: index into sinks *)
  refc : Z;                 (* pool._ref_count (Close decrements unconditionally: may become negative) *)
  sinks : list sstate;      (* environment: every sink the provider ever created, by creation order *)
  waiting : list task;      (* greenlets blocked at the yield *)
  spawned : list nat;       (* greenlets spawned by pool.Open() (AsyncResult.Run) that have not started yet *)
  ntask : nat               (* number of Req/OpenPool labels so far = name of the next task *)
}.

Definition init : st := mkSt None 0%Z [] [] [] 0.

(* what the provider / the new sink do if this step calls CreateSink (environment) *)
Inductive cmode :=
| CIdle        (* a new Idle sink whose Open() stays pending until OpenDone / Fault / Close *)
| CFail        (* CreateSink raises *)
| COpenNow     (* a new sink whose Open() completes synchronously: it reports Open at once, wait() does not block *)
| CFailNow.    (* a new sink whose Open() fails synchronously: it reports Closed at once (no fault signal), wait() does not block *)

Inductive label :=
| Req (m : cmode)               (* a request enters AsyncProcessRequest *)
| OpenPool                      (* pool.Open(): counts, and spawns the greenlet that will call _Get (first holder) *)
| Start (t : nat) (m : cmode)   (* scheduler: the greenlet spawned by Open call t starts running _Get *)
| ClosePool                     (* pool.Close() *)
| OpenDone (n : nat) (ok : bool)(* environment: the pending open of sink n completes *)
| Fault (n : nat)               (* environment: sink n fails *)
| SetBusy (n : nat) (b : bool)  (* environment: the open sink n starts (true) / stops (false) reporting ChannelState.Busy *)
| Resume (t : nat).             (* scheduler: waiting task t continues after its wait() *)

Inductive obs :=
| Create (n : nat)              (* provider.CreateSink returned sink n *)
| OpenUnder (n : nat)           (* sink n .Open() called *)
| CloseUnder (n : nat)          (* sink n .Close() called *)
| Forward (c n : nat)           (* sink n .AsyncProcessRequest called with request c *)
| Error (c : nat)               (* request c answered with an error message by the pool *)
| Crash (c : nat)               (* request c: _Get returned None, AttributeError escapes AsyncProcessRequest *)
| PoolFault                     (* pool.on_faulted signalled *)
| OpenResult (t : nat) (ok : bool).   (* the result returned by the pool.Open() call t completed *)

Fixpoint upd {A} (l : list A) (i : nat) (x : A) : list A :=
  match l, i with
  | [], _ => []
  | _ :: r, O => x :: r
  | y :: r, S i' => y :: upd r i' x
  end.

Definition set_next (s : st) (n : option nat) := mkSt n (refc s) (sinks s) (waiting s) (spawned s) (ntask s).
Definition set_refc (s : st) (r : Z) := mkSt (next s) r (sinks s) (waiting s) (spawned s) (ntask s).
Definition set_sinks (s : st) (l : list sstate) := mkSt (next s) (refc s) l (waiting s) (spawned s) (ntask s).
Definition set_waiting (s : st) (w : list task) := mkSt (next s) (refc s) (sinks s) w (spawned s) (ntask s).
Definition set_spawned (s : st) (p : list nat) := mkSt (next s) (refc s) (sinks s) (waiting s) p (ntask s).
Definition bump (s : st) := mkSt (next s) (refc s) (sinks s) (waiting s) (spawned s) (S (ntask s)).

Inductive gres :=
| GRaise            (* _Get raised *)
| GWait (n : nat)   (* blocked in sink n .Open().wait() *)
| GSink (n : nat).  (* returned sink n without yielding *)

(* branch "none": CreateSink, Subscribe, Open().wait(), return self.next_sink *)
Definition fresh (s : st) (x : sstate) : st :=
  set_sinks (set_next (set_next s None) (Some (length (sinks s)))) (sinks s ++ [x]).

Definition create (s : st) (m : cmode) : st * gres * list obs :=
  let n := length (sinks s) in
  match m with
  | CFail => (set_next s None, GRaise, [])
  | CIdle => (fresh s SIdle, GWait n, [Create n; OpenUnder n])
  | COpenNow => (fresh s SOpen, GSink n, [Create n; OpenUnder n])
  | CFailNow => (fresh s SClosed, GSink n, [Create n; OpenUnder n])
  end.

Definition get (s : st) (fail : cmode) : st * gres * list obs :=
  match next s with
  | None => create s fail
  | Some n =>
      match nth_error (sinks s) n with
      | Some SIdle => (s, GWait n, [OpenUnder n])
      | Some SClosed => create (set_next s None) fail
      | Some SOpen | Some SBusy => (s, GSink n, [])       (* branch "share": Busy is open and healthy *)
      | None => (s, GRaise, [])          (* next_sink is not a sink the provider made: unreachable (SingletonP.inv) *)
      end
  end.

Definition find_task (t : nat) (w : list task) : option task := find (fun x => Nat.eqb (t_id x) t) w.
Definition remove_task (t : nat) (w : list task) : list task := filter (fun x => negb (Nat.eqb (t_id x) t)) w.

(* the pool is subscribed to on_faulted of exactly its next_sink *)
Definition notify (s : st) (n : nat) : list obs :=
  match next s with Some m => if Nat.eqb m n then [PoolFault] else [] | None => [] end.

Definition step (s : st) (l : label) : st * list obs :=
  match l with
  | Req fail =>
      let c := ntask s in
      let '(s1, r, o) := get (bump s) fail in
      match r with
      | GRaise => (s1, o ++ [Error c])
      | GWait n => (set_waiting s1 (waiting s1 ++ [mkTask c KReq n]), o)
      | GSink n => (s1, o ++ [Forward c n])
      end
  | OpenPool =>
      let t := ntask s in
      let s0 := set_refc (bump s) (refc s + 1) in
      if (refc s0 >? 1)%Z then (s0, [OpenResult t true])        (* AsyncResult.Complete() *)
      else (set_spawned s0 (spawned s0 ++ [t]), [])              (* AsyncResult.Run(TryGet) *)
  | Start t fail =>
      if existsb (Nat.eqb t) (spawned s) then
        let s0 := set_spawned s (filter (fun x => negb (Nat.eqb x t)) (spawned s)) in
        let '(s1, r, o) := get s0 fail in
        match r with
        | GRaise => (s1, o ++ [OpenResult t false])
        | GWait n => (set_waiting s1 (waiting s1 ++ [mkTask t KOpen n]), o)
        | GSink _ => (s1, o ++ [OpenResult t true])
        end
      else (s, [])
  | ClosePool =>
      let s0 := set_refc s (refc s - 1) in
      match next s0 with
      | Some n =>
          if (refc s0 <=? 0)%Z
          then (set_sinks (set_next s0 None) (upd (sinks s0) n SClosed), [CloseUnder n])
          else (s0, [])
      | None => (s0, [])
      end
  | OpenDone n ok =>
      match nth_error (sinks s) n with
      | Some SIdle =>
          if ok then (set_sinks s (upd (sinks s) n SOpen), [])
          else (set_sinks s (upd (sinks s) n SClosed), notify s n)
      | _ => (s, [])
      end
  | Fault n =>
      match nth_error (sinks s) n with
      | Some SIdle | Some SOpen | Some SBusy => (set_sinks s (upd (sinks s) n SClosed), notify s n)
      | _ => (s, [])
      end
  | SetBusy n b =>
      match nth_error (sinks s) n, b with
      | Some SOpen, true => (set_sinks s (upd (sinks s) n SBusy), [])
      | Some SBusy, false => (set_sinks s (upd (sinks s) n SOpen), [])
      | _, _ => (s, [])
      end
  | Resume t =>
      match find_task t (waiting s) with
      | None => (s, [])
      | Some tk =>
          match nth_error (sinks s) (t_sink tk) with
          | Some SIdle => (s, [])         (* its open result is still pending: the greenlet stays blocked *)
          | _ =>
              let s1 := set_waiting s (remove_task t (waiting s)) in
              match t_kind tk with
              | KOpen => (s1, [OpenResult t true])
              | KReq =>
                  match next s with
                  | Some n => (s1, [Forward t n])
                  | None => (s1, [Crash t])
                  end
              end
          end
      end
  end.

(* SingletonPoolSink.state, as ChannelState numbers (Idle 1, Open 2, Busy 3, Closed 4) *)
Definition pool_state (s : st) : Z :=
  match next s with
  | None => 1%Z
  | Some n => match nth_error (sinks s) n with
              | Some SIdle => 1%Z | Some SOpen => 2%Z | Some SBusy => 3%Z | Some SClosed => 4%Z | None => 0%Z end
  end.

Fixpoint run (s : st) (ls : list label) : st * list (list obs) :=
  match ls with
  | [] => (s, [])
  | l :: r => let '(s1, o) := step s l in let '(s2, os) := run s1 r in (s2, o :: os)
  end.

(* per step: the observations and the pool's state afterwards *)
Fixpoint run_view (s : st) (ls : list label) : list (list obs * Z) :=
  match ls with
  | [] => []
  | l :: r => let '(s1, o) := step s l in (o, pool_state s1) :: run_view s1 r
  end.

(* ---- vocabulary of the property statements ---------------------------------------------------- *)
Definition closed (s : st) (n : nat) : Prop := nth_error (sinks s) n = Some SClosed.
Definition live (s : st) (n : nat) : Prop := exists x, nth_error (sinks s) n = Some x /\ x <> SClosed.
Definition not_closed (x : sstate) : bool := match x with SClosed => false | _ => true end.
(* number of underlying connections that were created and are not closed *)
Definition live_count (s : st) : nat := length (filter not_closed (sinks s)).
(* pool.Open() calls minus pool.Close() calls of a history *)
Definition is_openpool (l : label) : bool := match l with OpenPool => true | _ => false end.
Definition is_closepool (l : label) : bool := match l with ClosePool => true | _ => false end.
Definition balance (ls : list label) : Z :=
  (Z.of_nat (length (filter is_openpool ls)) - Z.of_nat (length (filter is_closepool ls)))%Z.
(* the sink an observation is about *)
Definition obs_sink (o : obs) : option nat :=
  match o with
  | Create n | OpenUnder n | CloseUnder n | Forward _ n => Some n
  | _ => None
  end.

(* ---- comparison with the implementation (cases generated by harness/props/c16.py) ------------- *)
Definition obs_eqb (a b : obs) : bool :=
  match a, b with
  | Create x, Create y => Nat.eqb x y
  | OpenUnder x, OpenUnder y => Nat.eqb x y
  | CloseUnder x, CloseUnder y => Nat.eqb x y
  | Forward c x, Forward d y => Nat.eqb c d && Nat.eqb x y
  | Error c, Error d => Nat.eqb c d
  | Crash c, Crash d => Nat.eqb c d
  | PoolFault, PoolFault => true
  | OpenResult t b1, OpenResult u b2 => Nat.eqb t u && Bool.eqb b1 b2
  | _, _ => false
  end.

(* calls issued concurrently (a group) against an underlying sink whose Open/Close yield: the lock serialises
   them in arrival order, so the underlying calls of a group happen in the order of the sequential run
   (requests do not take the lock and are left out of this comparison) *)
Fixpoint group {A} (sizes : list nat) (l : list (list A)) : list (list A) :=
  match sizes with
  | [] => []
  | n :: r => concat (firstn n l) :: group r (skipn n l)
  end.
Definition not_fwd (o : robs) : bool := match o with UForward _ => false | _ => true end.

Inductive case :=
| CSingle (ops : list label) (expected : list (list obs * Z))
| CRef (ops : list rlabel) (expected : list (list robs))
| CRefG (ops : list rlabel) (expected : list (list robs)) (sizes : list nat) (chrono : list (list robs))
| CShared (ops : list shlabel) (expected : list (list shobs)).

Definition check_case (c : case) : bool :=
  match c with
  | CSingle ops e => list_eqb (pair_eqb (list_eqb obs_eqb) Z.eqb) (run_view init ops) e
  | CRef ops e => rcheck ops e
  | CRefG ops e sizes chrono =>
      rcheck ops e &&
      list_eqb (list_eqb robs_eqb) (map (filter not_fwd) (group sizes (snd (rrun rinit ops)))) chrono
  | CShared ops e => shcheck ops e
  end.

Inductive explained :=
| XSingle (v : list (list obs * Z))
| XRef (v : list (list robs))
| XShared (v : list (list shobs)).

(* what the model computes, for the replay file *)
Definition explain_case (c : case) : explained :=
  match c with
  | CSingle ops _ => XSingle (run_view init ops)
  | CRef ops _ => XRef (snd (rrun rinit ops))
  | CRefG ops _ _ _ => XRef (snd (rrun rinit ops))
  | CShared ops _ => XShared (snd (shrun shinit ops))
  end.
