(* What stands between a timed-out caller and the wire (C12): transcription of the expiry checks on the way
   down, per call:
     scales/sink.py          ClientTimeoutSink: deadline < now -> fail without forwarding; _TimeoutHelper sets the
                             timed-out Observable (Deadline.EVENT_KEY) BEFORE posting TimeoutError
     scales/thrift/sink.py   SocketTransportSink._AsyncProcessTransaction: timeout = deadline - now; timeout <= 0 -> no write
     scales/mux/sink.py      _SendLoop/_HandleTimeout: event already set -> drop unsent, release tag; event pending ->
                             subscribe timeout_proc (pops Tag.KEY, _OnTimeout(tag))
     scales/thriftmux/sink.py _OnTimeout/_CreateDiscardMessage: Tdiscarded naming the tag, queued like any frame
   Hops above the transports (balancer open gate, pool queue, connect) never write; they are one position
   `Upstream`, and the model lets a call leave it at ANY time (also after its caller timed out) - the
   guards that matter are the ones in front of the write. *)
From Scales Require Import Model.Base.
Local Open Scope Z_scope.

Inductive pos :=
| NotEntered
| Upstream                    (* forwarded by the timeout sink, not yet at a transport *)
| AtSerial                    (* a serial transport has spawned the transaction greenlet *)
| InSendQ (tag : Z)           (* in a mux send queue, holding a tag *)
| OnWire (tag : option Z)     (* request bytes written (mux: with this tag) *)
| Gone.                       (* dropped unsent, or never forwarded *)

Record st := {
  now : Z;
  deadline : Z;
  p : pos;
  evt : bool;                 (* timed-out Observable set *)
  handed : bool;              (* the caller has been handed TimeoutError *)
  completed : bool;           (* the caller's result is complete (any outcome) *)
  subscribed : bool;          (* mux: timeout_proc subscribed when the frame was written *)
  tagkey : bool;              (* mux: Tag.KEY still in the message properties (peer has not answered, not yet discarded) *)
  notif : bool;               (* the Observable's notifier greenlet is pending (evt set, timeout_proc not yet run) *)
  conn_open : bool;           (* the connection the request was written to is still open *)
  owed : option Z;            (* a Tdiscarded naming this tag has been queued and not yet written *)
  writes : list Z;            (* ticks at which request bytes of this call were written *)
  discards : list Z;          (* tags named by Tdiscarded frames written for this call *)
}.

Definition init (t : Z) : st :=
  {| now := t; deadline := 0; p := NotEntered; evt := false; handed := false; completed := false;
     subscribed := false; tagkey := false; notif := false; conn_open := false; owed := None; writes := []; discards := [] |}.

Inductive label :=
| Enter (dl : Z)              (* ClientTimeoutSink.AsyncProcessRequest with this absolute deadline *)
| Tick (t : Z)
| OuterTimeout                (* DispatchMethodCall's own timer: the call timed out while waiting for Open() and is
                                 never dispatched *)
| Fire                        (* the timer action (_TimeoutHelper) runs: requires now >= deadline; sets the event *)
| TimedOut                    (* ... and its TimeoutError reaches the caller (unless something else completed the call
                                 re-entrantly while the message travelled up the sink stack) *)
| Complete                    (* the call completes with something else than the timer (reply, error) *)
| ToSerial                    (* serial SocketTransportSink.AsyncProcessRequest accepted the request *)
| ToSendQ (tag : Z)           (* mux AsyncProcessRequest: tag acquired, frame queued *)
| Write                       (* request bytes reach the socket *)
| NoWrite                     (* the transport's guard refuses: serial Timeout before writing / mux drops the frame *)
| SerialTimeout               (* serial transport's own gevent.Timeout after the write: TimeoutError posted *)
| Notify                      (* the notifier greenlet runs timeout_proc: pops Tag.KEY; if still set, _OnTimeout(tag)
                                 queues a Tdiscarded on the (open) transport *)
| Answered                    (* the peer's reply for this tag is processed (_ProcessTaggedReply clears Tag.KEY) *)
| ConnClosed                  (* the connection the request was written to is closed *)
| Discard (tag : Z)           (* a Tdiscarded frame naming tag is written *)
| WriteDone.                  (* serial: the last byte of the request reaches the peer (a write may block on back
                                 pressure). The serial transport arms its own gevent.Timeout at the deadline BEFORE it
                                 writes, so a write still blocked at the deadline is aborted: the frame can only
                                 arrive complete while now <= deadline *)

Definition not_entered (q : pos) : bool := match q with NotEntered => true | _ => false end.

Definition upd_now (s : st) (t : Z) : st :=
  {| now := t; deadline := deadline s; p := p s; evt := evt s; handed := handed s; completed := completed s;
     subscribed := subscribed s; tagkey := tagkey s; notif := notif s; conn_open := conn_open s; owed := owed s; writes := writes s; discards := discards s |}.

Definition step (s : st) (l : label) : option st :=
  match l with
  | Enter dl =>
      match p s with
      | NotEntered =>
          if dl <? now s then
            (* expired on entry: TimeoutError at once, nothing forwarded *)
            Some {| now := now s; deadline := dl; p := Gone; evt := false; handed := true; completed := true;
                    subscribed := false; tagkey := false; notif := false; conn_open := false; owed := None; writes := []; discards := [] |}
          else
            Some {| now := now s; deadline := dl; p := Upstream; evt := false; handed := false; completed := false;
                    subscribed := false; tagkey := false; notif := false; conn_open := false; owed := None; writes := []; discards := [] |}
      | _ => None
      end
  | Tick t => if t <? now s then None else Some (upd_now s t)
  | OuterTimeout =>
      match p s with
      | NotEntered =>
          Some {| now := now s; deadline := now s; p := Gone; evt := false; handed := true; completed := true;
                  subscribed := false; tagkey := false; notif := false; conn_open := false; owed := None; writes := []; discards := [] |}
      | _ => None
      end
  | Fire =>
      (* the action may also run after the call completed: a cancel issued once the clock has reached the rounded
         deadline does not stop an action the timer queue has already spawned (C10) *)
      if not_entered (p s) || (now s <? deadline s) || evt s then None else
      (* evt.Set(True) first (spawns the notifier greenlet that will run the subscribed timeout_proc),
         then TimeoutError is posted *)
      Some {| now := now s; deadline := deadline s; p := p s; evt := true; handed := handed s; completed := completed s;
              subscribed := false; tagkey := tagkey s; notif := subscribed s; conn_open := conn_open s;
              owed := owed s; writes := writes s; discards := discards s |}
  | TimedOut =>
      if evt s && negb (completed s) then
        Some {| now := now s; deadline := deadline s; p := p s; evt := evt s; handed := true; completed := true;
                subscribed := subscribed s; tagkey := tagkey s; notif := notif s; conn_open := conn_open s;
                owed := owed s; writes := writes s; discards := discards s |}
      else None
  | Complete =>
      if not_entered (p s) || completed s then None else
      Some {| now := now s; deadline := deadline s; p := p s; evt := evt s; handed := handed s; completed := true;
              subscribed := subscribed s; tagkey := tagkey s; notif := notif s; conn_open := conn_open s; owed := owed s; writes := writes s; discards := discards s |}
  | ToSerial =>
      match p s with
      | Upstream => Some {| now := now s; deadline := deadline s; p := AtSerial; evt := evt s; handed := handed s;
                            completed := completed s; subscribed := false; tagkey := tagkey s; notif := notif s; conn_open := conn_open s; owed := owed s;
                            writes := writes s; discards := discards s |}
      | _ => None
      end
  | ToSendQ tag =>
      match p s with
      | Upstream => Some {| now := now s; deadline := deadline s; p := InSendQ tag; evt := evt s; handed := handed s;
                            completed := completed s; subscribed := false; tagkey := tagkey s; notif := notif s; conn_open := conn_open s; owed := owed s;
                            writes := writes s; discards := discards s |}
      | _ => None
      end
  | Write =>
      match p s with
      | AtSerial =>
          (* timeout = deadline - now; if timeout <= 0: raise Timeout (before the write) *)
          if deadline s - now s <=? 0 then None else
          Some {| now := now s; deadline := deadline s; p := OnWire None; evt := evt s; handed := handed s;
                  completed := completed s; subscribed := false; tagkey := tagkey s; notif := notif s; conn_open := true; owed := owed s;
                  writes := now s :: writes s; discards := discards s |}
      | InSendQ tag =>
          (* _HandleTimeout: event already set -> dropped; else subscribe and write *)
          if evt s then None else
          Some {| now := now s; deadline := deadline s; p := OnWire (Some tag); evt := evt s; handed := handed s;
                  completed := completed s; subscribed := true; tagkey := true; notif := notif s; conn_open := true; owed := owed s;
                  writes := now s :: writes s; discards := discards s |}
      | _ => None
      end
  | NoWrite =>
      match p s with
      | AtSerial => if deadline s - now s <=? 0 then
          Some {| now := now s; deadline := deadline s; p := Gone; evt := evt s; handed := true; completed := true;
                  subscribed := false; tagkey := tagkey s; notif := notif s; conn_open := conn_open s; owed := owed s; writes := writes s; discards := discards s |}
          else None
      | InSendQ _ => if evt s then
          Some {| now := now s; deadline := deadline s; p := Gone; evt := evt s; handed := handed s; completed := completed s;
                  subscribed := false; tagkey := tagkey s; notif := notif s; conn_open := conn_open s; owed := owed s; writes := writes s; discards := discards s |}
          else None
      | _ => None
      end
  | SerialTimeout =>
      match p s with
      | OnWire None =>
          if (now s <? deadline s) || completed s then None else
          Some {| now := now s; deadline := deadline s; p := OnWire None; evt := evt s; handed := true; completed := true;
                  subscribed := false; tagkey := tagkey s; notif := notif s; conn_open := false; owed := owed s; writes := writes s; discards := discards s |}
      | _ => None
      end
  | Notify =>
      (* the notifier greenlet of the event runs the subscribed callbacks; timeout_proc may also have been subscribed by
         a send attempt that then failed (no Write label): then it finds nothing to discard *)
      if evt s then
        Some {| now := now s; deadline := deadline s; p := p s; evt := evt s; handed := handed s; completed := completed s;
                subscribed := subscribed s; tagkey := if notif s then false else tagkey s; notif := false; conn_open := conn_open s;
                owed := match p s with
                        | OnWire (Some tag) => if notif s && tagkey s && conn_open s then Some tag else owed s
                        | _ => owed s end;
                writes := writes s; discards := discards s |}
      else None
  | Answered =>
      match p s with
      | OnWire (Some _) =>
        Some {| now := now s; deadline := deadline s; p := p s; evt := evt s; handed := handed s; completed := completed s;
                subscribed := subscribed s; tagkey := false; notif := notif s; conn_open := conn_open s;
                owed := owed s; writes := writes s; discards := discards s |}
      | _ => None
      end
  | ConnClosed =>
      Some {| now := now s; deadline := deadline s; p := p s; evt := evt s; handed := handed s; completed := completed s;
              subscribed := subscribed s; tagkey := tagkey s; notif := notif s; conn_open := false; owed := None; writes := writes s; discards := discards s |}
  | Discard tag =>
      match owed s with
      | Some g => if g =? tag then
          Some {| now := now s; deadline := deadline s; p := p s; evt := evt s; handed := handed s; completed := completed s;
                  subscribed := subscribed s; tagkey := tagkey s; notif := notif s; conn_open := conn_open s; owed := None; writes := writes s;
                  discards := tag :: discards s |}
          else None
      | None => None
      end
  | WriteDone =>
      match p s with
      | OnWire None => if (deadline s <? now s) || negb (conn_open s) then None else Some s
      | _ => None
      end
  end.

Fixpoint run (s : st) (ls : list label) : option st :=
  match ls with
  | [] => Some s
  | l :: ls' => match step s l with Some s' => run s' ls' | None => None end
  end.

(* ---- correspondence ---------------------------------------------------------------------------- *)
Record case := {
  c_start : Z;
  c_labels : list label;
  c_handed : bool;              (* the caller ended with TimeoutError *)
  c_writes : list Z;            (* ticks of request writes seen by the peers, newest first *)
  c_discards : list Z;          (* tags named by Tdiscarded frames seen by the peers, newest first *)
  c_settled : bool;             (* the scenario ran long enough after the timeout for a queued discard to be written *)
}.

Definition check_case (c : case) : bool :=
  match run (init (c_start c)) (c_labels c) with
  | Some s =>
      Bool.eqb (handed s) (c_handed c) && list_eqb Z.eqb (writes s) (c_writes c) &&
      list_eqb Z.eqb (discards s) (c_discards c) &&
      (negb (c_settled c) || match owed s with None => true | Some _ => false end)
  | None => false
  end.

Definition explain_case (c : case) : option (bool * list Z * list Z * option Z * pos) :=
  match run (init (c_start c)) (c_labels c) with
  | Some s => Some (handed s, writes s, discards s, owed s, p s)
  | None => None
  end.
