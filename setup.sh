#!/bin/bash
# Builds the whole Coq development (full .vo build) from files on disk; offline.
cd "$(dirname "$0")/coq" || exit 2
{
  echo "-Q . Scales"
  echo "-arg -w -arg -notation-overridden,-deprecated-hint-without-locality,-deprecated-hint-rewrite-without-locality"
  echo
  find Model Proofs Props -name '*.v' | sort
} > _CoqProject
coq_makefile -f _CoqProject -o Makefile || exit 1
# -k: one broken file must not keep unrelated properties from building; each check re-verifies
# the dependency closure of its own theorem file and fails if any part of it does not compile.
timeout 3000 make -k -j16
rc=$?
echo "setup: make exit $rc"
exit 0
