#!/bin/bash
# Builds the whole Coq development (full .vo build) from files on disk; offline.
set -e
cd "$(dirname "$0")/coq"
coq_makefile -f _CoqProject -o Makefile
timeout 3000 make -j16
