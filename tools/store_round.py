#!/usr/bin/env python3
"""tools/store_round.py <PID> <srcdir with mutant_k> <eval output file> <round> : store evaluated seeded changes as /verif/seeded/<PID>_<n>/"""
import json, os, re, shutil, sys, glob
pid, src, evalf, rnd = sys.argv[1], sys.argv[2], sys.argv[3], int(sys.argv[4])
txt = open(evalf).read()
blocks = re.split(r'^=== ', txt, flags=re.M)[1:]
res = {}
for b in blocks:
  m = re.match(r'%s mutant_(\d+):' % pid, b)
  k = int(m.group(1))
  ok = 'demo pristine exit=0 mutated exit=1' in b and '52 passed' in b
  viol = [l for l in b.splitlines() if 'VIOLATION' in l]
  concrete = [l for l in viol if 'no-failing-input-found' not in l]
  t = re.search(r'diverging=(\d+) monitor-violations=(\d+)', b)
  div, mon = (int(t.group(1)), int(t.group(2))) if t else (0, 0)
  if concrete:
    cb = '%s monitor (concrete replay) + %d diverging model cases' % (pid, div)
  elif viol:
    cb = 'NOT CAUGHT by a monitor at first: %s correspondence break only (%d diverging cases, VIOLATION ... no-failing-input-found)' % (pid, div)
  else:
    cb = 'NOT CAUGHT at first by the quick check of its own property'
  res[k] = (ok, cb)
existing = [int(os.path.basename(d).split('_')[1]) for d in glob.glob('/verif/seeded/%s_*' % pid)]
base = max(existing or [0])
for k in sorted(res):
  ok, cb = res[k]
  if not ok:
    print('%s mutant_%d NOT CONFIRMED, skipped' % (pid, k)); continue
  dst = '/verif/seeded/%s_%d' % (pid, base + k)
  os.makedirs(dst, exist_ok=True)
  for f in ('patch.diff', 'demo.py'):
    shutil.copy('%s/mutant_%d/%s' % (src, k, f), '%s/%s' % (dst, f))
  m = json.load(open('%s/mutant_%d/meta.json' % (src, k)))
  m['property'] = pid; m['round'] = rnd
  m['produced_by'] = 'independent sub-agent given only the property text, the summaries of the earlier changes (to avoid duplicates) and a scratch worktree'
  m['confirmed'] = 'tools/eval_seeded.sh: demo exits 0 on the pristine tree and 1 with the patch; test suite 52 passed with the patch'
  m['caught_by'] = cb
  json.dump(m, open(dst + '/meta.json', 'w'), indent=1)
  print(os.path.basename(dst), '->', cb[:110])
