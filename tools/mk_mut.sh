#!/bin/bash
# tools/mk_mut.sh <PID>... : create a scratch worktree /tmp/wt_<PID> and the prompt file /tmp/mut_prompt_<PID>.txt for a seeding sub-agent
for id in "$@"; do
  git -C /repo worktree add -q --detach /tmp/wt_$id HEAD || exit 1
  python3 - "$id" <<'PY'
import json,sys
pid=sys.argv[1]
for l in open('/verif/properties.jsonl'):
    p=json.loads(l)
    if p['id']==pid:
        prop="%s: %s\n\nStatement: %s\n\nQuantifier: %s\n\nAnchored in: %s\n" % (p['id'],p['title'],p['statement'],p['quantifier']['text'],', '.join(p['anchors']['files']))
t=open('/verif/tools/mut_brief.txt').read()
t=t.replace('WORKTREE','/tmp/wt_'+pid).replace('OUTDIR','mutants_'+pid).replace('"ID"','"%s"'%pid).replace('PROPERTY',prop)
open('/tmp/mut_prompt_%s.txt'%pid,'w').write(t)
PY
  echo "prepared $id"
done
