#!/bin/bash
# tools/eval_seeded.sh <PID> <dir with mutant_k subdirs> : confirm each seeded change (suite passes, demo fails with / passes without)
# and run the property's quick check against a scratch copy carrying the change.
PID=$1; SRC=$2
for m in "$SRC"/mutant_*; do
  k=$(basename $m)
  S=/tmp/evalrepo_${PID}_$k
  rm -rf $S && cp -r /repo $S && rm -rf $S/.git && (cd $S && git init -q && git add -A >/dev/null 2>&1 && git -c user.email=a@b -c user.name=x commit -qm base >/dev/null)
  echo "=== $PID $k: $(python3 -c "import json;print(json.load(open('$m/meta.json'))['summary'][:160])")"
  base=$(cd $S && PYTHONPATH=$S timeout 600 /venv/bin/python $m/demo.py >/dev/null 2>&1; echo $?)
  (cd $S && git apply $m/patch.diff) || { echo "  patch does not apply"; continue; }
  mut=$(cd $S && PYTHONPATH=$S timeout 600 /venv/bin/python $m/demo.py >/dev/null 2>&1; echo $?)
  suite=$(cd $S && timeout 900 /venv/bin/python -m pytest -q -p no:cacheprovider --continue-on-collection-errors 2>&1 | tail -1)
  echo "  demo pristine exit=$base mutated exit=$mut ; suite: $suite"
  out=$(cd /verif && SCALES_REPO=$S timeout 2400 ./check $PID --no-proof 2>&1 | grep "VIOLATION\|tier=")
  echo "$out" | sed 's/^/  /'
  rm -rf $S
done
