#!/usr/bin/env python3
"""tools/gen_anchors.py : record, per property, a fingerprint of the source files the property is anchored in (properties.jsonl
anchors.files), as /verif/anchors.json.  The fingerprint is a hash of the file's AST (comments, blank lines and docstrings do not
count).  Re-run after every deliberate change to /repo (fix: commits).  Used by harness/common.py source_drift()."""
import json, os, sys
if sys.executable != '/venv/bin/python' and os.path.exists('/venv/bin/python'):
  os.execv('/venv/bin/python', ['/venv/bin/python'] + sys.argv)     # ast.dump differs between interpreter versions: use the checks' own
sys.path.insert(0, os.path.dirname(os.path.dirname(os.path.abspath(__file__))))
from harness import common as C

out = {'_python': '%d.%d' % sys.version_info[:2]}
for l in open(os.path.join(C.VERIF, 'properties.jsonl')):
  p = json.loads(l)
  files = sorted(set(p['anchors']['files']))
  out[p['id']] = {f: C.ast_fingerprint(os.path.join('/repo', f)) for f in files}
json.dump(out, open(os.path.join(C.VERIF, 'anchors.json'), 'w'), indent=1, sort_keys=True)
print('anchors.json: %d properties, %d file fingerprints' % (len(out) - 1, sum(len(v) for k, v in out.items() if k != '_python')))
