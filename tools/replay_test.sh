#!/bin/bash
# tools/replay_test.sh <seeded-dir-name> <PID> : with the stored change applied to a scratch copy, run the quick check, take the first
# VIOLATION replay file, and confirm (a) replaying it against the changed copy reports the violation again, (b) replaying it against
# /repo is clean.
M=$1; P=$2
S=/tmp/rt_$M
rm -rf $S && cp -r /repo $S && rm -rf $S/.git
(cd $S && git init -q && git apply /verif/seeded/$M/patch.diff) || { echo "[$M] patch does not apply"; rm -rf $S; exit 2; }
cd /verif
R=$(SCALES_REPO=$S ./check $P --no-proof 2>&1 | grep "^VIOLATION" | grep -v no-failing-input-found | head -1 | sed 's/.*replay=\([^ ]*\).*/\1/')
if [ -z "$R" ]; then echo "[$M] $P: no monitor replay produced"; rm -rf $S; exit 0; fi
cp $R /tmp/rt_$M.json
a=$(SCALES_REPO=$S ./check $P --replay /tmp/rt_$M.json 2>&1 | grep -c "^VIOLATION")
SCALES_REPO=$S ./check $P --replay /tmp/rt_$M.json >/dev/null 2>&1; ea=$?
b=$(./check $P --replay /tmp/rt_$M.json 2>&1 | grep -c "^VIOLATION")
./check $P --replay /tmp/rt_$M.json >/dev/null 2>&1; eb=$?
echo "[$M] $P: replay on changed tree: violation-lines=$a exit=$ea ; on /repo: violation-lines=$b exit=$eb"
rm -rf $S /tmp/rt_$M.json
