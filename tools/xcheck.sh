#!/bin/bash
# tools/xcheck.sh <seeded-dir-name> <PID>... : apply a stored seeded change to a scratch copy and run the quick checks of the given properties
M=$1; shift
S=/tmp/xc_$M
rm -rf $S && cp -r /repo $S && rm -rf $S/.git
(cd $S && git init -q && git apply /verif/seeded/$M/patch.diff) || { echo "patch does not apply"; rm -rf $S; exit 2; }
for p in "$@"; do
  (cd /verif && SCALES_REPO=$S ./check $p --no-proof 2>&1 | grep "VIOLATION\|tier=" | head -4 | cut -c1-220 | sed "s/^/  [$M] /")
done
rm -rf $S
