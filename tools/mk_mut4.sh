#!/bin/bash
# tools/mk_mut2.sh <PID>... : fourth seeding round: like mk_mut.sh, but the prompt lists the changes already known for this property
for id in "$@"; do
  git -C /repo worktree add -q --detach /tmp/wt4_$id HEAD || exit 1
  python3 - "$id" <<'PY'
import json,sys,glob
pid=sys.argv[1]
for l in open('/verif/properties.jsonl'):
    p=json.loads(l)
    if p['id']==pid:
        prop="%s: %s\n\nStatement: %s\n\nQuantifier: %s\n\nAnchored in: %s\n" % (p['id'],p['title'],p['statement'],p['quantifier']['text'],', '.join(p['anchors']['files']))
known=[]
for f in sorted(glob.glob('/verif/seeded/%s_*/meta.json'%pid)):
    m=json.load(open(f)); known.append('- '+m['summary'])
t=open('/verif/tools/mut_brief.txt').read()
t=t.replace('WORKTREE','/tmp/wt4_'+pid).replace('OUTDIR','mutants4_'+pid).replace('"ID"','"%s"'%pid).replace('PROPERTY',prop)
t=t.replace('Produce THREE different changes','The following changes have ALREADY been proposed by others for this property; yours must be different from them in mechanism (a different site, or a different way of going wrong), not variations of them:\n'+'\n'.join(known)+'\n\nProduce THREE different changes')
open('/tmp/mut4_prompt_%s.txt'%pid,'w').write(t)
PY
  echo "prepared $id"
done
