#!/venv/bin/python
"""tools/determinism_test.py <PID> [n] : every case must be a pure function of its JSON. Runs n generated cases (plus the corpus) in one
order in one process and in reverse order in another process and compares the implementation observations and monitor verdicts."""
import json, os, subprocess, sys
sys.path.insert(0, '/verif')
os.environ.setdefault('PYTHONHASHSEED', '0')
from harness import common as C
sys.path.insert(0, C.REPO)
from harness import runner


def run(pid, n, rev):
  mod = runner._load(pid)
  if hasattr(mod, 'setup'):
    mod.setup()
  cases = runner.load_corpus(pid) + list(mod.gen_cases('quick', 0))
  step = max(1, len(cases) // n)
  idx = list(range(0, len(cases), step))
  if rev:
    idx.reverse()
  out = {}
  for i in idx:
    o = runner._safe_impl(mod, cases[i])
    ms = runner._safe_monitor(mod, cases[i], o)
    out[i] = C.canon([o, sorted(s for s, _ in ms)])
  return out


if __name__ == '__main__':
  pid = sys.argv[1]
  n = int(sys.argv[2]) if len(sys.argv) > 2 else 200
  if len(sys.argv) > 3:
    json.dump(run(pid, n, True), sys.stdout)
    sys.exit(0)
  a = run(pid, n, False)
  p = subprocess.run([sys.executable, __file__, pid, str(n), 'rev'], stdout=subprocess.PIPE, stderr=subprocess.DEVNULL)
  b = {int(k): v for k, v in json.loads(p.stdout.decode()).items()}
  bad = [i for i in a if a[i] != b.get(i)]
  print('%s: %d cases compared, %d differ between forward and reverse order%s' % (pid, len(a), len(bad), (' first #%d' % bad[0]) if bad else ''))
  if bad and os.environ.get('VERBOSE'):
    print(a[bad[0]][:1500]); print(b[bad[0]][:1500])
