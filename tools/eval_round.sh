#!/bin/bash
# tools/eval_round.sh <round> <PID> : evaluate /tmp/mutants<round>_<PID>, store confirmed changes under /verif/seeded, drop the worktree
R=$1; P=$2
cd /verif
tools/eval_seeded.sh $P /tmp/mutants${R}_$P > /tmp/eval${R}_$P.out 2>&1
python3 tools/store_round.py $P /tmp/mutants${R}_$P /tmp/eval${R}_$P.out $R
git -C /repo worktree remove --force /tmp/wt${R}_$P 2>/dev/null
rm -rf /tmp/mutants${R}_$P
