#!/usr/bin/env python3
"""Regenerates /verif/MANIFEST.json from the property modules present under harness/props."""
import importlib, json, os, sys
V = os.path.dirname(os.path.dirname(os.path.abspath(__file__)))
sys.path.insert(0, V)
props = [json.loads(l) for l in open(os.path.join(V, 'properties.jsonl'))]
checks, na = [], []
NOT_BUILT = {}
READY = set(open(os.path.join(V, 'tools', 'ready.txt')).read().split())
for p in props:
  pid = p['id']
  path = os.path.join(V, 'harness', 'props', pid.lower() + '.py')
  if pid not in READY or not os.path.exists(path) or not os.path.exists(os.path.join(V, 'coq', 'Props', pid + '.v')):
    na.append({'property_id': pid, 'reason': NOT_BUILT.get(pid, 'no check registered yet: the Coq model/theorems and correspondence harness for this property have not been built (see DESIGN.md section 5 for the planned design)')})
    continue
  src = open(path).read()
  ns = {}
  # module-level MANIFEST dict is evaluated without importing the repo
  import ast
  tree = ast.parse(src)
  man = {}
  for node in tree.body:
    if isinstance(node, ast.Assign) and len(node.targets) == 1 and getattr(node.targets[0], 'id', None) == 'MANIFEST':
      man = ast.literal_eval(node.value)
  checks.append({
    'property_id': pid,
    'quick_cmd': './check %s --tier quick' % pid,
    'thorough_cmd': './check %s --tier thorough' % pid,
    'evidence_file': '/verif/evidence/%s.json' % pid,
    'replay_cmd_template': './check %s --replay {path}' % pid,
    'engine': 'coq-proof+correspondence',
    'level_claimed': {'category': 'proof', 'text': man.get('text', ''), 'design_ref': man.get('design_ref', 'DESIGN.md section 5 (%s)' % pid)},
    'level_note': man.get('note', ''),
    'technique': man.get('technique', 'Coq 8.16 theorems over a hand-written Gallina model; model tied to /repo by differential execution (vm_compute) on generated cases; independent monitor searches the implementation for a failing input'),
  })
m = {
  'version': 1,
  'setup_cmd': 'cd /verif && ./setup.sh',
  'hooks': {'guard': 'SCALES_VERIF', 'enable': 'none needed: no source hooks exist in /repo; all instrumentation is monkey-patched from /verif/harness at run time (the checks export SCALES_VERIF=1 for uniformity)',
            'baseline_off_cmd': 'cd /repo && /venv/bin/python -m pytest -ra -q -p no:cacheprovider --timeout=900 --continue-on-collection-errors',
            'source_commits': [], 'add_only': True},
  'engines': [{'name': 'coq-proof+correspondence', 'path': '/verif/check',
               'serves_properties': [c['property_id'] for c in checks],
               'kind_free_text': 'machine-checked Coq proofs about hand-written executable Gallina models (coq/Model, coq/Proofs, coq/Props); correspondence check runs model (vm_compute inside coqc) and implementation (/repo working tree) on the same generated cases; Python monitors give concrete replays'}],
  'checks': checks,
  'not_applicable': na,
  'notes': 'See DESIGN.md. fix: commits in /repo repair genuine defects (KNOWN_FINDINGS.json "fixed"). Evidence level is "proof" for every claimed property; the correspondence sampling counts are reported alongside.',
}
json.dump(m, open(os.path.join(V, 'MANIFEST.json'), 'w'), indent=1)
print('checks:', [c['property_id'] for c in checks], 'not claimed:', len(na))
