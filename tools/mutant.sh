#!/bin/bash
# tools/mutant.sh <PID> <file-relative-to-repo> <python-regex-old> <new>   : apply one textual mutation to a scratch copy and run the check
PID=$1; F=$2; OLD=$3; NEW=$4
S=/tmp/scr_mut_$PID
rm -rf $S && cp -r /repo $S
python3 - "$S/$F" "$OLD" "$NEW" <<'PY'
import sys,re
p,old,new=sys.argv[1:4]
s=open(p,newline='').read()
n=len(re.findall(old,s))
if n!=1: print('MUTATION SITE COUNT',n); sys.exit(3)
open(p,'w',newline='').write(re.sub(old,new.replace('\\n','\n'),s,count=1))
PY
[ $? -eq 0 ] || exit 3
cd /verif && SCALES_REPO=$S ./check $PID --no-proof 2>&1 | grep -v "^Exception ignored\|^Traceback\|gevent/\|^RuntimeError\|^  File\|^    " | cut -c1-200 | grep "VIOLATION\|tier=" 
rm -rf $S
